package rules

import (
	"fmt"
	"go/ast"
	"go/constant"
	"go/token"
	"go/types"
	"path"
	"sort"
	"strings"

	"jetverif/an"
)

func init() {
	register(&Property{
		ID:  "C15",
		Run: runC15,
		Meta: an.Meta{
			Technique: "flow-sensitive sanitiser (taint) analysis on CFGs with condition facts, inductive over parameters (greatest fixpoint) and over Template.Name / NodeBase.TemplatePath",
			Explanation: "A sanitiser must-pass-through (taint) rule, flow-sensitive inside each function (CFG exploration with facts) and inductive across functions (greatest fixpoint over " +
				"parameter assumptions): (C15.clean) every argument of Loader.Exists/Open and Cache.Get/Put on a Set, and the Name of every Template built by parse, is a *clean absolute* value — " +
				"path.Clean(x) under the fact path.IsAbs(x), path.Join rooted at \"/\" / a clean value / path.Dir of one, optionally + <extension from Set.extensions> — and every argument " +
				"of path.IsAbs/Join/Clean/Dir/Base was passed through filepath.ToSlash first; (C15.sites) each lookup entry point passes the right referrer: GetTemplate → \"/\", " +
				"extends/import → the parsing template's own Name, include → the include node's TemplatePath, and relative names are joined to path.Dir(referrer); Template.Name and " +
				"NodeBase.TemplatePath are clean by induction (all their stores are checked).",
			NotDecided:  "extension strings supplied by configuration; what custom loaders do with the path; the OS/embed loaders' own joining below their directory is C19.agree.",
			Assumptions: []string{"path.Clean/Join/Dir/IsAbs and filepath.ToSlash behave as documented (stdlib)", "extensions contain no path separators (configuration)"},
			Trusted:     commonTrusted,
		},
		Mutants: []Mutant{
			{Name: "absolute names are not cleaned (original defect)", File: "set.go", Old: "\t} else {\n\t\t// absolute paths must be lexically clean, too, no matter how they were spelt\n\t\ttemplatePath = path.Clean(templatePath)\n\t}\n", New: "\t}\n", Rule: "C15.clean"},
			{Name: "ToSlash dropped for the requested name", File: "set.go", Old: "\ttemplatePath = filepath.ToSlash(templatePath)\n\tsiblingPath = filepath.ToSlash(siblingPath)\n", New: "\tsiblingPath = filepath.ToSlash(siblingPath)\n", Rule: "C15.clean"},
			{Name: "relative names joined to the referrer file instead of its directory", File: "set.go", Old: "siblingDir := path.Dir(siblingPath)", New: "siblingDir := siblingPath", Rule: "C15.sites"},
			{Name: "extends resolves against the root instead of the extending file", File: "parse.go", Old: "t.extends, err = t.set.getSiblingTemplate(s, t.Name, cacheAfterParsing)", New: "t.extends, err = t.set.getSiblingTemplate(s, \"/\", cacheAfterParsing)", Rule: "C15.sites"},
			{Name: "include resolves against the root", File: "eval.go", Old: "st.set.getSiblingTemplate(templatePath, node.TemplatePath, true)", New: "st.set.getSiblingTemplate(templatePath, \"/\", true)", Rule: "C15.sites"},
			{Name: "a lookup path that bypasses getSiblingTemplate", File: "set.go", Old: "func (s *Set) GetTemplate(templatePath string) (t *Template, err error) {\n\treturn s.getSiblingTemplate(templatePath, \"/\", true)", New: "func (s *Set) GetTemplate(templatePath string) (t *Template, err error) {\n\tif path.IsAbs(templatePath) {\n\t\treturn s.getTemplate(templatePath, true)\n\t}\n\treturn s.getSiblingTemplate(templatePath, \"/\", true)", Rule: "C15.clean"},
			{Name: "Set.Parse keeps the caller's spelling", File: "set.go", Old: "\ttemplatePath = path.Join(\"/\", templatePath)\n\n\treturn s.parse(templatePath, contents, false)", New: "\tif !path.IsAbs(templatePath) {\n\t\ttemplatePath = path.Join(\"/\", templatePath)\n\t}\n\n\treturn s.parse(templatePath, contents, false)", Rule: "C15.clean"},
			{Name: "relative names concatenated instead of joined", File: "set.go", Old: "templatePath = path.Join(siblingDir, templatePath)", New: "templatePath = siblingDir + \"/\" + templatePath", Rule: "C15.clean"},
			{Name: "node TemplatePath taken from ParseName", File: "constructors.go", Old: "return &IncludeNode{NodeBase: NodeBase{TemplatePath: t.Name,", New: "return &IncludeNode{NodeBase: NodeBase{TemplatePath: t.ParseName,", Rule: "C15.clean"},
		},
	})
}

type taint struct{ clean, slashed bool }

type c15 struct {
	c      *an.Ctx
	p      *an.Prog
	info   *types.Info
	params map[*types.Var]taint // assumptions for string parameters of in-scope unexported functions
	scope  map[*an.Fn]bool
	// field assumptions, verified by checking every store
	fieldClean map[string]bool
	changed    bool
	report     bool
	nSinks     int
	nPathCalls int
	nCalls     int
}

func runC15(c *an.Ctx) {
	c15absoluteNotJoined(c)
	p := c.P
	r := &c15{c: c, p: p, info: p.Jet.TypesInfo, params: map[*types.Var]taint{}, scope: map[*an.Fn]bool{},
		fieldClean: map[string]bool{"Template.Name": true, "NodeBase.TemplatePath": true}}
	// scope: unexported functions/methods of package jet from which a sink is reachable and that take string parameters
	reach := p.FnsReaching(ldExists, ldOpen, cacheGet, cachePut)
	for f := range reach {
		if f.Pkg != p.Jet || f.Decl == nil || f.Sig == nil || f.Obj == nil || f.Obj.Exported() {
			continue
		}
		hasStr := false
		for i := 0; i < f.Sig.Params().Len(); i++ {
			if isString(f.Sig.Params().At(i).Type()) {
				hasStr = true
			}
		}
		if !hasStr {
			continue
		}
		// only Set's lookup machinery: receiver *Set
		if f.Sig.Recv() == nil || an.TypeName(f.Sig.Recv().Type()) != "*jet.Set" {
			continue
		}
		r.scope[f] = true
		for i := 0; i < f.Sig.Params().Len(); i++ {
			if pv := f.Sig.Params().At(i); isString(pv.Type()) {
				r.params[pv] = taint{true, true}
			}
		}
	}
	c.Expect("C15.clean", "lookup functions with path parameters", len(r.scope), 5)
	// functions to explore: scope + every function with a call into scope or a sink or a store to the induction fields
	explore := map[*an.Fn]bool{}
	for _, f := range p.Units() {
		if f.Body == nil || f.Pkg != p.Jet {
			continue
		}
		if r.scope[f] {
			explore[f] = true
			continue
		}
		an.InspectOwn(f, func(n ast.Node) bool {
			switch x := n.(type) {
			case *ast.CallExpr:
				if g := p.FnByObj[an.Callee(r.info, x)]; g != nil && r.scope[g] {
					explore[f] = true
				}
				if an.IsCallTo(r.info, x, ldExists, ldOpen, cacheGet, cachePut) {
					explore[f] = true
				}
			case *ast.KeyValueExpr:
				if id, ok := x.Key.(*ast.Ident); ok {
					if fv, ok := an.ObjOf(r.info, id).(*types.Var); ok && fv.IsField() {
						if k := p.FieldOwner(fv) + "." + an.RoleOf(fv); r.fieldClean[k] {
							explore[f] = true
						}
					}
				}
			case *ast.AssignStmt:
				for _, l := range x.Lhs {
					if k := p.FieldKey(r.info, l); r.fieldClean[k] {
						explore[f] = true
					}
				}
			}
			return true
		})
	}
	fns := an.SortedFns(explore)
	// greatest fixpoint over the parameter assumptions
	for iter := 0; iter < 10; iter++ {
		r.changed = false
		for _, f := range fns {
			r.run(f)
		}
		if !r.changed {
			break
		}
	}
	// reporting pass
	r.report = true
	for _, f := range fns {
		c.FnsAnalysed[f.Name] = true
		r.run(f)
	}
	c.Expect("C15.clean", "loader/cache sink call sites and Template literals", r.nSinks, 5)
	c.Expect("C15.clean", "path.* calls on names", r.nPathCalls, 5)
	var as []string
	for pv, t := range r.params {
		as = append(as, fmt.Sprintf("%s: clean=%v slashed=%v", pv.Name()+"@"+p.RelPos(pv.Pos()), t.clean, t.slashed))
	}
	sort.Strings(as)
	c.Note("parameter assumptions at the fixpoint: %v", as)

	r.sites()
}

func isString(t types.Type) bool {
	b, ok := t.Underlying().(*types.Basic)
	return ok && b.Kind() == types.String
}

func (r *c15) run(f *an.Fn) {
	p := r.p
	info := f.Info()
	extVars := map[types.Object]bool{} // range variables over Set.extensions
	an.InspectOwn(f, func(n ast.Node) bool {
		if rs, ok := n.(*ast.RangeStmt); ok && p.FieldKey(info, rs.X) == extsField {
			if id, ok := rs.Value.(*ast.Ident); ok {
				extVars[an.ObjOf(info, id)] = true
			}
		}
		return true
	})
	var x *an.Explorer
	reg := func(pre string, o types.Object) string { return fmt.Sprintf("%s:%s·%d", pre, o.Name(), int(o.Pos())) }

	var eval func(e ast.Expr, st *an.State) taint
	eval = func(e ast.Expr, st *an.State) taint {
		e = an.Unparen(e)
		if tv, ok := info.Types[e]; ok && tv.Value != nil && tv.Value.Kind() == constant.String {
			s := constant.StringVal(tv.Value)
			return taint{clean: path.IsAbs(s) && path.Clean(s) == s, slashed: !strings.Contains(s, "\\")}
		}
		switch v := e.(type) {
		case *ast.Ident:
			o := an.ObjOf(info, v)
			if o == nil {
				return taint{}
			}
			return taint{st.Get(reg("cl", o)) == "1", st.Get(reg("sl", o)) == "1"}
		case *ast.SelectorExpr:
			if k := p.FieldKey(info, v); r.fieldClean[k] {
				return taint{true, true}
			}
		case *ast.BinaryExpr:
			if v.Op == token.ADD {
				l := eval(v.X, st)
				if id, ok := an.Unparen(v.Y).(*ast.Ident); ok && extVars[an.ObjOf(info, id)] {
					return l
				}
				rr := eval(v.Y, st)
				return taint{false, l.slashed && rr.slashed}
			}
		case *ast.CallExpr:
			name := an.CalleeName(info, v)
			switch name {
			case "filepath.ToSlash":
				if len(v.Args) == 1 {
					return taint{eval(v.Args[0], st).clean, true}
				}
			case "path.Clean":
				if len(v.Args) == 1 {
					a := eval(v.Args[0], st)
					isAbs := false
					// fact path.IsAbs(<arg>) on this path
					probe := &ast.CallExpr{Fun: &ast.SelectorExpr{X: ast.NewIdent("path"), Sel: ast.NewIdent("IsAbs")}, Args: v.Args}
					_ = probe
					for k, val := range st.Facts {
						if val && an.PlainKey(k) == "path.IsAbs("+an.Str(v.Args[0])+")" {
							isAbs = true
						}
					}
					return taint{a.clean || (isAbs && a.slashed), a.slashed}
				}
			case "path.Join":
				if len(v.Args) >= 1 {
					first := eval(v.Args[0], st)
					sl := first.slashed
					for _, a := range v.Args[1:] {
						if !eval(a, st).slashed {
							sl = false
						}
					}
					return taint{first.clean && sl, sl}
				}
			case "path.Dir":
				if len(v.Args) == 1 {
					a := eval(v.Args[0], st)
					return taint{a.clean, a.slashed}
				}
			}
		}
		return taint{}
	}

	sink := func(what string, arg ast.Expr, pos token.Pos, st *an.State) {
		t := eval(arg, st)
		if !r.report {
			return
		}
		key := f.Name + "/" + what
		if t.clean {
			r.c.OK("C15.clean", key, pos, "%s is a clean absolute path on every path (%s)", an.Str(arg), what)
		} else {
			r.c.Bad("C15.clean", key, pos, an.Facts(st), "%s reaches %s without having been made absolute and lexically clean (path.Clean under path.IsAbs, or path.Join rooted at a clean path)", an.Str(arg), what)
		}
	}
	// per-site aggregation so that one site yields one obligation: collect worst state
	type siteAgg struct {
		what string
		arg  ast.Expr
		pos  token.Pos
		bad  *an.State
		any  *an.State
	}
	aggs := map[token.Pos]*siteAgg{}
	var order []token.Pos
	note := func(what string, arg ast.Expr, pos token.Pos, st *an.State) {
		a := aggs[pos]
		if a == nil {
			a = &siteAgg{what: what, arg: arg, pos: pos}
			aggs[pos] = a
			order = append(order, pos)
		}
		if a.any == nil {
			a.any = st.Clone()
		}
		if !eval(arg, st).clean && a.bad == nil {
			a.bad = st.Clone()
		}
	}
	type pathAgg struct {
		call *ast.CallExpr
		bad  bool
	}
	pathAggs := map[*ast.CallExpr]*pathAgg{}

	hooks := an.Hooks{
		Call: func(_ *an.Explorer, call *ast.CallExpr, st *an.State) {
			name := an.CalleeName(info, call)
			switch name {
			case ldExists, ldOpen, cacheGet, cachePut:
				// only sinks on a Set's loader/cache
				if k := p.FieldKey(info, an.Receiver(call)); k == "Set.loader" || k == "Set.cache" {
					note(name, call.Args[0], call.Pos(), st)
				}
			case "path.IsAbs", "path.Join", "path.Clean", "path.Dir", "path.Base":
				pa := pathAggs[call]
				if pa == nil {
					pa = &pathAgg{call: call}
					pathAggs[call] = pa
				}
				for _, a := range call.Args {
					if !eval(a, st).slashed {
						pa.bad = true
					}
				}
			}
			if g := p.FnByObj[an.Callee(info, call)]; g != nil && r.scope[g] {
				r.nCalls++
				for i := 0; i < g.Sig.Params().Len() && i < len(call.Args); i++ {
					pv := g.Sig.Params().At(i)
					cur, ok := r.params[pv]
					if !ok {
						continue
					}
					t := eval(call.Args[i], st)
					nw := taint{cur.clean && t.clean, cur.slashed && t.slashed}
					if nw != cur {
						r.params[pv] = nw
						r.changed = true
					}
				}
			}
		},
		PreAssign: func(_ *an.Explorer, lhs, rhs ast.Expr, stmt ast.Node, st *an.State) {
			// stores to the induction fields
			if k := p.FieldKey(info, lhs); r.fieldClean[k] && rhs != nil {
				note("store to "+k, rhs, lhs.Pos(), st)
			}
			if rhs != nil {
				ast.Inspect(rhs, func(n ast.Node) bool {
					if _, ok := n.(*ast.FuncLit); ok {
						return false
					}
					kv, ok := n.(*ast.KeyValueExpr)
					if !ok {
						return true
					}
					if id, ok := kv.Key.(*ast.Ident); ok {
						if fv, ok := an.ObjOf(info, id).(*types.Var); ok && fv.IsField() {
							if k := p.FieldOwner(fv) + "." + an.RoleOf(fv); r.fieldClean[k] {
								note("store to "+k, kv.Value, kv.Pos(), st)
							}
						}
					}
					return true
				})
			}
			id, ok := an.Unparen(lhs).(*ast.Ident)
			if !ok {
				return
			}
			o := an.ObjOf(info, id)
			if o == nil || !isString(o.Type()) {
				return
			}
			t := taint{}
			if rhs != nil {
				t = eval(rhs, st)
			}
			st.Set(reg("cl", o), b2s(t.clean))
			st.Set(reg("sl", o), b2s(t.slashed))
		},
		Return: func(_ *an.Explorer, ret *ast.ReturnStmt, st *an.State) {
			// composite literals in return statements (constructors: return &IncludeNode{NodeBase: NodeBase{TemplatePath: t.Name …}})
			for _, res := range ret.Results {
				ast.Inspect(res, func(n ast.Node) bool {
					kv, ok := n.(*ast.KeyValueExpr)
					if !ok {
						return true
					}
					if id, ok := kv.Key.(*ast.Ident); ok {
						if fv, ok := an.ObjOf(info, id).(*types.Var); ok && fv.IsField() {
							if k := p.FieldOwner(fv) + "." + an.RoleOf(fv); r.fieldClean[k] {
								note("store to "+k, kv.Value, kv.Pos(), st)
							}
						}
					}
					return true
				})
			}
		},
	}
	x = p.NewExplorer(f, hooks)
	init := an.NewState()
	if f.Sig != nil {
		for i := 0; i < f.Sig.Params().Len(); i++ {
			pv := f.Sig.Params().At(i)
			if t, ok := r.params[pv]; ok {
				init.Set(reg("cl", pv), b2s(t.clean))
				init.Set(reg("sl", pv), b2s(t.slashed))
			}
		}
	}
	x.Run(init)
	if r.report {
		r.c.States += x.Visited
		if x.Undecided != "" {
			r.c.Undecided("C15.clean", f.Name, f.Pos(), "%s", x.Undecided)
		}
		sort.Slice(order, func(i, j int) bool { return order[i] < order[j] })
		for _, pos := range order {
			a := aggs[pos]
			r.nSinks++
			r.c.CallSites++
			st := a.any
			if a.bad != nil {
				st = a.bad
			}
			sink(a.what, a.arg, a.pos, st)
		}
		var pcs []*ast.CallExpr
		for c := range pathAggs {
			pcs = append(pcs, c)
		}
		sort.Slice(pcs, func(i, j int) bool { return pcs[i].Pos() < pcs[j].Pos() })
		for _, pc := range pcs {
			r.nPathCalls++
			key := f.Name + "/" + an.CalleeName(info, pc)
			if pathAggs[pc].bad {
				r.c.Bad("C15.clean", key, pc.Pos(), nil, "%s is applied to a name that was not passed through filepath.ToSlash first: a backslash-separated name is treated as one relative segment", an.Str(pc))
			} else {
				r.c.OK("C15.clean", key, pc.Pos(), "arguments are slash-separated")
			}
		}
	}
}

func b2s(b bool) string {
	if b {
		return "1"
	}
	return ""
}

// sites: each entry point hands getSiblingTemplate the right referrer, and the relative branch joins to its directory.
func (r *c15) sites() {
	c, p := r.c, r.p
	gst := c.Fn("C15.sites", "(*Set).getSiblingTemplate")
	if gst == nil {
		return
	}
	sites := p.AllCalls(an.FuncName(gst.Obj))
	c.Expect("C15.sites", "callers of getSiblingTemplate", len(sites), 4)
	for _, s := range sites {
		info := s.Fn.Info()
		if len(s.Call.Args) < 2 {
			continue
		}
		ref := an.Unparen(s.Call.Args[1])
		key := s.Fn.Name
		root := s.Fn.Root()
		recvType := ""
		if root.Sig != nil && root.Sig.Recv() != nil {
			recvType = an.TypeName(root.Sig.Recv().Type())
		}
		switch {
		case recvType == "*jet.Set":
			// root-relative public lookup
			tv := info.Types[ref]
			ok := tv.Value != nil && tv.Value.Kind() == constant.String && constant.StringVal(tv.Value) == "/"
			c.Check(ok, "C15.sites", key, s.Call.Pos(), "Set-level lookup resolves against the root \"/\"", "a Set-level lookup passes "+an.Str(ref)+" instead of \"/\" as the referrer")
		case recvType == "*jet.Template":
			// extends/import: the parsing template's own Name
			ok := false
			if sel, isSel := ref.(*ast.SelectorExpr); isSel && p.FieldKey(info, sel) == "Template.Name" {
				ok = an.Norm(s.Fn, sel.X) == "$r" // the receiver itself (through helper receivers, if any)
			}
			c.Check(ok, "C15.sites", key, s.Call.Pos(), "extends/import resolve against the parsing template's own Name", "extends/import pass "+an.Str(ref)+" as the referrer instead of the parsing template's own Name: relative names resolve against the wrong directory")
		case recvType == "*jet.Runtime":
			ok := false
			if sel, isSel := ref.(*ast.SelectorExpr); isSel && p.FieldKey(info, sel) == "NodeBase.TemplatePath" {
				ok = strings.HasPrefix(an.Norm(s.Fn, sel.X), "$p") && !strings.ContainsAny(an.Norm(s.Fn, sel.X), ".(")
			}
			c.Check(ok, "C15.sites", key, s.Call.Pos(), "include resolves against the including node's TemplatePath", "include passes "+an.Str(ref)+" as the referrer instead of the include node's own TemplatePath")
		default:
			c.Bad("C15.sites", key, s.Call.Pos(), nil, "unexpected caller of getSiblingTemplate (%s): no referrer rule is known for it", s.Fn.Name)
		}
	}
	// the relative branch joins to path.Dir(<referrer>)
	info := gst.Info()
	refParam := an.Param(gst, 1)
	joins := p.CallsIn(gst, "path.Join")
	c.Expect("C15.sites", "path.Join in getSiblingTemplate", len(joins), 1)
	for _, j := range joins {
		ok := false
		first := an.Unparen(j.Args[0])
		if id, isId := first.(*ast.Ident); isId {
			defs := an.LocalDefs(gst, an.ObjOf(info, id))
			if len(defs) == 1 && defs[0] != nil {
				first = an.Unparen(defs[0])
			}
		}
		if call, isCall := first.(*ast.CallExpr); isCall && an.IsCallTo(info, call, "path.Dir") && len(call.Args) == 1 {
			if id, isId := an.Unparen(call.Args[0]).(*ast.Ident); isId && an.ObjOf(info, id) == refParam {
				ok = true
			}
		}
		// the same through a helper's parameters and a separator normalisation: path.Dir([ToSlash](referrer))
		switch strings.ReplaceAll(an.Norm(gst, j.Args[0]), " ", "") {
		case "path.Dir($p1)", "path.Dir(filepath.ToSlash($p1))":
			ok = true
		}
		c.Check(ok, "C15.sites", "(*Set).getSiblingTemplate/join-dir", j.Pos(), "relative names are joined to path.Dir(referrer)", "relative names are not joined to the *directory* of the referring template (path.Dir(referrer))")
	}
}
