package rules

import (
	"fmt"
	"go/ast"
	"go/constant"
	"go/token"
	"go/types"
	"sort"
	"strings"

	"jetverif/an"
)

func init() {
	register(&Property{
		ID:  "C16",
		Run: runC16,
		Meta: an.Meta{
			Technique: "guard/dominance rules on the CFGs of the lookup functions (path exploration with condition facts), flag-threading closure, error-discipline check",
			Explanation: "Guards and order of the template lookup in set.go, decided on the CFG of each function with condition facts: (C16.probe) every Cache.Get is reached only under " +
				"!developmentMode, and a hit returns the cached pointer itself before any Loader call; (C16.put) Cache.Put has exactly one call site, reached only under err == nil && <cache flag> && " +
				"!developmentMode, storing the template just returned by the loader path under the path that was looked up; (C16.nocache) the cache flag is threaded unchanged " +
				"(every call passes its own flag parameter inside the parse cycle; Set.Parse passes constant false); (C16.ext) the extension list is only ever ranged over " +
				"(forward), each candidate is <path>+<extension>, the first hit returns, and Open/parse receive the string that Exists accepted; (C16.errs) errors of Open, ReadAll, " +
				"parse and the lookup helpers are returned, never dropped or replaced by nil. (C16.put, continued) the key passed to Cache.Put is one a later lookup of the same name tries (the stored template's Name, or the form of a Cache.Get key). (C16.ext, continued) every Loader.Exists / Cache.Get of the Set lies inside a loop over the configured extensions. (C16.probe, continued) outside development mode no path of getTemplate reaches the loader without having asked the cache, whatever the caller's cache flag. (C16.state) the same rule as C10.state: on the lookup paths nothing but the Cache is written that outlives the call, so neither failed lookups nor anything else is remembered outside it. (C16.ext, continued) the extension list is stored into the Set as it was given, element for element. (C16.ext every-candidate) nothing ends an iteration of the loops over the configured extensions before the candidate was looked up: cache and loader see the same candidates of a name.",
			NotDecided:  "what custom Cache/Loader implementations do; identity of templates requested under different spellings of one file (keys are requested paths); atomicity under concurrency (C11); the default extension list.",
			Assumptions: []string{"a Cache returns what was Put under the same key (contract of the Cache interface)"},
			Trusted:     commonTrusted,
		},
		Mutants: []Mutant{
			{Name: "template cached under the requested name, looked up under name+extension (original defect)", File: "set.go", Old: "s.cache.Put(t.Name, t)", New: "s.cache.Put(templatePath, t)", Rule: "C16.put"},
			{Name: "cache despite parse failure (drop err == nil)", File: "set.go", Old: "if err == nil && cacheAfterParsing && !s.developmentMode {", New: "if cacheAfterParsing && !s.developmentMode {", Rule: "C16.put"},
			{Name: "cache in development mode", File: "set.go", Old: "if err == nil && cacheAfterParsing && !s.developmentMode {", New: "if err == nil && cacheAfterParsing {", Rule: "C16.put"},
			{Name: "cache although caller asked not to", File: "set.go", Old: "if err == nil && cacheAfterParsing && !s.developmentMode {", New: "if err == nil && !s.developmentMode {", Rule: "C16.put"},
			{Name: "probe the cache in development mode", File: "set.go", Old: "\tif !s.developmentMode {\n\t\tt, found := s.getTemplateFromCache(templatePath)", New: "\tif true {\n\t\tt, found := s.getTemplateFromCache(templatePath)", Rule: "C16.probe"},
			{Name: "parseTemplate caches extended templates of Set.Parse", File: "parse.go", Old: "t.extends, err = t.set.getSiblingTemplate(s, t.Name, cacheAfterParsing)", New: "t.extends, err = t.set.getSiblingTemplate(s, t.Name, true)", Rule: "C16.nocache"},
			{Name: "Set.Parse caches", File: "set.go", Old: "return s.parse(templatePath, contents, false)", New: "return s.parse(templatePath, contents, true)", Rule: "C16.nocache"},
			{Name: "loadFromFile drops the flag", File: "set.go", Old: "return s.parse(templatePath, string(content), cacheAfterParsing)", New: "return s.parse(templatePath, string(content), true)", Rule: "C16.nocache"},
			{Name: "read error swallowed", File: "set.go", Old: "\tcontent, err := ioutil.ReadAll(f)\n\tif err != nil {\n\t\treturn nil, err\n\t}", New: "\tcontent, err := ioutil.ReadAll(f)\n\tif err != nil {\n\t\treturn nil, nil\n\t}", Rule: "C16.errs"},
			{Name: "extensions tried in reverse order", File: "set.go", Old: "\tfor _, extension := range s.extensions {\n\t\tcanonicalPath := templatePath + extension\n\t\tif found := s.loader.Exists(canonicalPath); found {", New: "\tfor i := len(s.extensions) - 1; i >= 0; i-- {\n\t\textension := s.extensions[i]\n\t\tcanonicalPath := templatePath + extension\n\t\tif found := s.loader.Exists(canonicalPath); found {", Rule: "C16.ext"},
			{Name: "open a different path than the one that exists", File: "set.go", Old: "return s.loadFromFile(canonicalPath, cacheAfterParsing)", New: "return s.loadFromFile(templatePath, cacheAfterParsing)", Rule: "C16.ext"},
			{Name: "cache under the canonical path of another variable", File: "set.go", Old: "s.cache.Put(t.Name, t)", New: "s.cache.Put(t.Name+\".jet\", t)", Rule: "C16.put"},
			{Name: "a second Put on the error path", File: "set.go", Old: "\treturn t, err\n}\n\nfunc (s *Set) getTemplateFromCache", New: "\tif err != nil {\n\t\ts.cache.Put(templatePath, nil)\n\t}\n\treturn t, err\n}\n\nfunc (s *Set) getTemplateFromCache", Rule: "C16.put"},
			{Name: "loader fault on the first existing candidate falls through to the next extension (agent seed C16/3)", File: "set.go", Old: "\t\t\treturn s.loadFromFile(canonicalPath, cacheAfterParsing)", New: "\t\t\tt, err = s.loadFromFile(canonicalPath, cacheAfterParsing)\n\t\t\tif t == nil && err != nil {\n\t\t\t\tcontinue\n\t\t\t}\n\t\t\treturn t, err", Rule: "C16.ext"},
			{Name: "equivalent: hit branch assigns the results and returns them", File: "set.go", Old: "\t\t\treturn s.loadFromFile(canonicalPath, cacheAfterParsing)", New: "\t\t\tt, err = s.loadFromFile(canonicalPath, cacheAfterParsing)\n\t\t\treturn t, err", Rule: "-"},
			{Name: "last extension wins (no early return)", File: "set.go", Old: "\t\tif t := s.cache.Get(canonicalPath); t != nil {\n\t\t\treturn t, true\n\t\t}\n\t}\n\treturn nil, false", New: "\t\tif c := s.cache.Get(canonicalPath); c != nil {\n\t\t\tt, ok = c, true\n\t\t}\n\t}\n\treturn t, ok", Rule: "C16.ext"},
		},
	})
}

const (
	cacheGet  = "(jet.Cache).Get"
	cachePut  = "(jet.Cache).Put"
	ldExists  = "(jet.Loader).Exists"
	ldOpen    = "(jet.Loader).Open"
	setParse  = "(*jet.Set).parse"
	devMode   = "developmentMode"
	extsField = "Set.extensions"
)

func runC16(c *an.Ctx) {
	c16defaultCache(c)
	devModeOnlyLookup(c, "C16.probe")
	p := c.P
	jet := p.Jet.TypesInfo
	loaderFns := p.FnsReaching(ldExists, ldOpen)

	// the fact key of "<recv>.developmentMode" in a function with receiver/param of type *Set
	devFact := func(st *an.State, val bool) bool {
		for k, v := range st.Facts {
			pk := an.PlainKey(k)
			if len(pk) > len(devMode) && pk[len(pk)-len(devMode)-1:] == "."+devMode && v == val {
				return true
			}
		}
		return false
	}

	// ---------------------------------------------------------------- C16.probe
	getSites := p.AllCalls(cacheGet)
	c.Expect("C16.probe", "Cache.Get call sites", len(getSites), 1)
	for _, s := range getSites {
		c.CallSites++
		r.probeGuard(c, s.Fn, s.Call, devFact, 0)
	}

	// hit path: in every function that calls a Cache.Get wrapper and a loader function, the hit returns first
	cacheFns := p.FnsReaching(cacheGet)
	for _, f := range an.SortedFns(cacheFns) {
		if f.Pkg != p.Jet || f.Body == nil || !loaderFns[f] {
			continue
		}
		// f both probes the cache and loads: the hit must return the cached value before loading
		var cacheCalls []*ast.CallExpr
		an.InspectOwn(f, func(n ast.Node) bool {
			if call, ok := n.(*ast.CallExpr); ok {
				if g := p.FnByObj[an.Callee(jet, call)]; (g != nil && cacheFns[g] && !loaderFns[g]) || an.IsCallTo(jet, call, cacheGet) {
					cacheCalls = append(cacheCalls, call)
				}
			}
			return true
		})
		if len(cacheCalls) == 0 {
			continue // reaches the cache only through functions that also load (e.g. getSiblingTemplate → getTemplate)
		}
		c.FnsAnalysed[f.Name] = true
		for _, cc := range cacheCalls {
			r.hitReturns(c, f, cc, loaderFns)
		}
	}
	// wrapper: a function that only probes returns the Cache.Get result itself under != nil
	for _, s := range getSites {
		r.wrapperReturnsHit(c, s.Fn, s.Call)
	}

	// ---------------------------------------------------------------- C16.put
	putSites := p.AllCalls(cachePut)
	c.Expect("C16.put", "Cache.Put call sites", len(putSites), 1)
	if len(putSites) > 1 {
		for _, s := range putSites[1:] {
			c.Bad("C16.put", "single-site/"+s.Fn.Name, s.Call.Pos(), nil, "a second Cache.Put call site exists in %s: the guards that keep failures and development-mode results out of the cache are at the other site", s.Fn.Name)
		}
	}
	var flagSeed *types.Var
	for i, s := range putSites {
		if i > 0 {
			break
		}
		f := s.Fn
		c.FnsAnalysed[f.Name] = true
		c.CallSites++
		pr := p.ProbeFn(f, []ast.Node{s.Call}, an.Hooks{})
		c.States += pr.X.Visited
		states := pr.At[s.Call]
		key := f.Name + "/Put"
		if len(states) == 0 {
			c.Undecided("C16.put", key, s.Call.Pos(), "Put site not reached by the exploration")
			continue
		}
		// (1) err == nil
		okErr, okDev, okFlag := true, true, true
		var flagName string
		for _, st := range states {
			if !factErrNil(st) {
				okErr = false
			}
			if !devFact(st, false) {
				okDev = false
			}
			found := false
			if f.Sig != nil {
				for j := 0; j < f.Sig.Params().Len(); j++ {
					pv := f.Sig.Params().At(j)
					if bt, ok := pv.Type().Underlying().(*types.Basic); ok && bt.Kind() == types.Bool && an.FactIs(st, an.RoleOf(pv), true) {
						found, flagName, flagSeed = true, pv.Name(), pv
					}
				}
			}
			if !found {
				okFlag = false
			}
		}
		c.Check(okErr, "C16.put", key+"/err==nil", s.Call.Pos(), "Put is reached only when the load/parse error is nil", "Cache.Put can be reached with a non-nil (or untested) error: a failed load or parse would be remembered")
		c.Check(okDev, "C16.put", key+"/!developmentMode", s.Call.Pos(), "Put is reached only outside development mode", "Cache.Put can be reached in development mode")
		c.Check(okFlag, "C16.put", key+"/flag", s.Call.Pos(), "Put is reached only when the caller's cache flag ("+flagName+") is true", "Cache.Put is not guarded by the function's boolean cache flag parameter: Set.Parse would populate the cache")
		// (2) value = template returned by the loader path of this call; key = the path handed to it
		if len(s.Call.Args) == 2 {
			valOK, keyOK := false, false
			var loaderCall *ast.CallExpr
			if id, ok := an.Unparen(s.Call.Args[1]).(*ast.Ident); ok {
				for _, md := range an.LocalMultiDefs(f, an.ObjOf(jet, id)) {
					if g := p.FnByObj[an.Callee(jet, md.Call)]; g != nil && loaderFns[g] && md.Index == 0 {
						valOK, loaderCall = true, md.Call
					}
				}
			}
			// the key must be one a later lookup of the same name tries: the stored template's own Name (the
			// canonical path it was loaded and parsed under, which is the name+extension candidate that
			// exists), or an expression of the same form as a key handed to Cache.Get
			_ = loaderCall
			getForms := map[string]bool{}
			for _, g := range p.Units() {
				if g.Pkg != p.Jet || g.Body == nil {
					continue
				}
				for _, gc := range p.CallsIn(g, "(jet.Cache).Get") {
					if len(gc.Args) == 1 {
						getForms[an.Norm(g, gc.Args[0])] = true
					}
				}
			}
			keyArg := an.Unparen(s.Call.Args[0])
			if sel, ok := keyArg.(*ast.SelectorExpr); ok && p.FieldKey(jet, sel) == "Template.Name" {
				if vid, ok := an.Unparen(s.Call.Args[1]).(*ast.Ident); ok {
					if kid, ok := an.Unparen(sel.X).(*ast.Ident); ok && an.ObjOf(jet, kid) == an.ObjOf(jet, vid) {
						keyOK = true
					}
				}
			}
			if getForms[an.Norm(f, keyArg)] {
				keyOK = true
			}
			c.Check(valOK, "C16.put", key+"/value", s.Call.Pos(), "the cached value is the template returned by the loader path", "the value stored by Cache.Put is not the template returned by the loader path of the same call")
			c.Check(keyOK, "C16.put", key+"/key", s.Call.Pos(), "the cache key is one a later lookup of the same name tries", "the key passed to Cache.Put ("+an.Str(s.Call.Args[0])+") is neither the stored template's Name nor of the form of a key handed to Cache.Get: a later lookup of the same name misses the cache (or hits another template)")
		}
	}

	// ---------------------------------------------------------------- C16.nocache
	r.flagFlow(c, flagSeed)

	// ---------------------------------------------------------------- C16.ext
	r.extensions(c)
	stateRule(c, "C16.state")

	// ---------------------------------------------------------------- C16.errs
	nErr := 0
	for _, f := range an.SortedFns(loaderFns) {
		if f.Pkg != p.Jet || f.Body == nil || f.Decl == nil {
			continue
		}
		recv := ""
		if f.Sig != nil && f.Sig.Recv() != nil {
			recv = an.TypeName(f.Sig.Recv().Type())
		}
		if recv != "*jet.Set" {
			continue
		}
		c.FnsAnalysed[f.Name] = true
		bad, ok := p.DroppedErrors(f, nil)
		for _, b := range bad {
			c.Bad("C16.errs", f.Name+"/"+an.CalleeName(jet, b.Call), b.Pos, b.Trail, "%s", b.Msg)
		}
		for _, o := range ok {
			nErr++
			c.OK("C16.errs", f.Name+"/"+an.CalleeName(jet, o), o.Pos(), "error is tested or returned on every path")
		}
	}
	c.Expect("C16.errs", "error-returning calls in the lookup path", nErr, 5)
	// Close is deferred for what Open returned
	for _, s := range p.AllCalls(ldOpen) {
		if s.Fn.Pkg != p.Jet {
			continue
		}
		deferred := false
		an.InspectOwn(s.Fn, func(n ast.Node) bool {
			if d, ok := n.(*ast.DeferStmt); ok && an.CalleeName(jet, d.Call) == "(io.Closer).Close" {
				deferred = true
			}
			return true
		})
		c.Check(deferred, "C16.errs", s.Fn.Name+"/close", s.Call.Pos(), "the opened template is closed by a deferred Close", "the reader returned by Loader.Open is not closed by a deferred Close")
	}
}

type c16 struct{}

var r c16

func factErrNil(st *an.State) bool {
	for k, v := range st.Facts {
		pk := an.PlainKey(k)
		if v && (pk == "err == nil" || pk == "nil == err") {
			return true
		}
	}
	return false
}

// probeGuard: the Cache.Get site is under !developmentMode, or its function is a pure wrapper all of whose callers are.
func (c16) probeGuard(c *an.Ctx, f *an.Fn, call *ast.CallExpr, devFact func(*an.State, bool) bool, depth int) {
	p := c.P
	c.FnsAnalysed[f.Name] = true
	pr := p.ProbeFn(f, []ast.Node{call}, an.Hooks{})
	c.States += pr.X.Visited
	states := pr.At[call]
	guarded := len(states) > 0
	for _, st := range states {
		if !devFact(st, false) {
			guarded = false
		}
	}
	key := f.Name + "/" + an.CalleeName(f.Info(), call)
	if guarded {
		c.OK("C16.probe", key, call.Pos(), "cache probe is reached only under !developmentMode")
		return
	}
	if depth >= 3 || f.Obj == nil {
		c.Bad("C16.probe", key, call.Pos(), nil, "the cache is probed without a !developmentMode guard: development mode would serve stale templates")
		return
	}
	// f is a wrapper: every caller must be guarded
	sites := p.AllCalls(an.FuncName(f.Obj))
	if len(sites) == 0 {
		c.Bad("C16.probe", key, call.Pos(), nil, "unguarded cache probe in %s, which has no callers to provide the guard", f.Name)
		return
	}
	for _, s := range sites {
		c.CallSites++
		r.probeGuard(c, s.Fn, s.Call, devFact, depth+1)
	}
}

// hitReturns: after cacheCall reports a hit, f returns the cached template without calling a loader function.
func (c16) hitReturns(c *an.Ctx, f *an.Fn, cacheCall *ast.CallExpr, loaderFns map[*an.Fn]bool) {
	p := c.P
	info := f.Info()
	// variables defined by the cache call
	var tmplVar, okVar types.Object
	an.InspectOwn(f, func(n ast.Node) bool {
		as, ok := n.(*ast.AssignStmt)
		if !ok || len(as.Rhs) != 1 || an.Unparen(as.Rhs[0]) != ast.Expr(cacheCall) {
			return true
		}
		if id, ok := as.Lhs[0].(*ast.Ident); ok {
			tmplVar = an.ObjOf(info, id)
		}
		if len(as.Lhs) > 1 {
			if id, ok := as.Lhs[1].(*ast.Ident); ok {
				okVar = an.ObjOf(info, id)
			}
		}
		return true
	})
	key := f.Name + "/hit"
	if tmplVar == nil {
		c.Undecided("C16.probe", key, cacheCall.Pos(), "result of the cache probe is not bound to variables")
		return
	}
	var unprobed token.Pos
	// a probe written as a loop over the configured extensions: entering that loop is "the cache was asked" —
	// with an empty list neither the cache nor (C16.ext: the loader is only asked inside such a loop) the loader is asked
	var probeLoopX ast.Expr
	for _, n := range an.EnclosingStmts(f, cacheCall) {
		if rs, ok := n.(*ast.RangeStmt); ok && p.FieldKey(info, rs.X) == extsField {
			probeLoopX = rs.X
		}
	}
	hooks := an.Hooks{
		Stmt: func(x *an.Explorer, n ast.Node, st *an.State) {
			if probeLoopX != nil && n == ast.Node(probeLoopX) {
				st.Set("probed", "1")
			}
		},
		Call: func(x *an.Explorer, call *ast.CallExpr, st *an.State) {
			if call == cacheCall {
				st.Set("probed", "1")
				return
			}
			isLoad := false
			if g := p.FnByObj[an.Callee(info, call)]; g != nil && loaderFns[g] {
				isLoad = true
			}
			if an.IsCallTo(info, call, ldExists, ldOpen) {
				isLoad = true
			}
			if isLoad {
				st.Set("loaded", "1")
				// the loader is consulted without the cache having been asked: only development mode allows that
				// (whoever asks — also a lookup that must not *store* its result, such as Set.Parse's)
				dev := false
				for k, v := range st.Facts {
					pk := an.PlainKey(k)
					if v && len(pk) > len(devMode) && pk[len(pk)-len(devMode)-1:] == "."+devMode {
						dev = true
					}
				}
				if st.Get("probed") == "" && !dev && !unprobed.IsValid() {
					unprobed = call.Pos()
				}
			}
		},
	}
	x := p.NewExplorer(f, hooks)
	x.Run(nil)
	c.States += x.Visited
	c.Check(!unprobed.IsValid(), "C16.probe", f.Name+"/always-probed", cacheCall.Pos(), "outside development mode the cache is asked before the loader, whatever the caller's cache flag",
		f.Name+" can consult the loader without having asked the cache on a path that is not known to be in development mode: a lookup that may not store its result (Set.Parse's extends/import) no longer gets the identical cached template")
	hitExits, bad := 0, 0
	for _, ex := range x.Exits {
		if ex.Kind != an.ExitReturn || ex.State.Get("probed") == "" {
			continue
		}
		isHit := false
		if okVar != nil {
			isHit = an.FactIs(ex.State, an.RoleOf(okVar), true)
		} else {
			isHit = an.FactIs(ex.State, "nil == "+an.RoleOf(tmplVar), false) || an.FactIs(ex.State, an.RoleOf(tmplVar)+" == nil", false)
		}
		if !isHit {
			continue
		}
		hitExits++
		okRet := ex.Ret != nil && len(ex.Ret.Results) >= 1
		if okRet {
			id, isId := an.Unparen(ex.Ret.Results[0]).(*ast.Ident)
			okRet = isId && an.ObjOf(info, id) == tmplVar
		}
		if !okRet || ex.State.Get("loaded") != "" {
			bad++
			pos := cacheCall.Pos()
			if ex.Ret != nil && ex.Ret.Pos().IsValid() {
				pos = ex.Ret.Pos()
			}
			c.Bad("C16.probe", key, pos, ex.Trail, "on a cache hit %s does not return the cached template itself, or touches the loader first", f.Name)
			break
		}
	}
	if bad == 0 {
		if hitExits == 0 {
			c.Bad("C16.probe", key, cacheCall.Pos(), nil, "no path returns the cached template after a hit")
		} else {
			c.OK("C16.probe", key, cacheCall.Pos(), "a hit returns the cached pointer itself without a loader call (%d exit(s))", hitExits)
		}
	}
}

// wrapperReturnsHit: in the function containing Cache.Get, a `true`/non-nil result carries the Get result itself.
func (c16) wrapperReturnsHit(c *an.Ctx, f *an.Fn, get *ast.CallExpr) {
	info := f.Info()
	var got types.Object
	ast.Inspect(f.Body, func(n ast.Node) bool {
		an.Assigns(n, func(lhs, rhs ast.Expr, _ token.Token) {
			if rhs != nil && an.Unparen(rhs) == ast.Expr(get) {
				if id, ok := lhs.(*ast.Ident); ok {
					got = an.ObjOf(info, id)
				}
			}
		})
		return true
	})
	if got == nil || f.Sig == nil || f.Sig.Results().Len() != 2 {
		return
	}
	key := f.Name + "/returns-hit"
	n := 0
	okAll := true
	an.InspectOwn(f, func(node ast.Node) bool {
		ret, ok := node.(*ast.ReturnStmt)
		if !ok || len(ret.Results) != 2 {
			return true
		}
		tv := info.Types[ret.Results[1]]
		if tv.Value == nil || tv.Value.Kind() != constant.Bool || !constant.BoolVal(tv.Value) {
			return true
		}
		n++
		id, isId := an.Unparen(ret.Results[0]).(*ast.Ident)
		if !isId || an.ObjOf(info, id) != got {
			okAll = false
			c.Bad("C16.probe", key, ret.Pos(), nil, "%s reports a hit but returns something else than the value Cache.Get returned", f.Name)
		}
		return true
	})
	if okAll && n > 0 {
		c.OK("C16.probe", key, get.Pos(), "a reported hit returns the Cache.Get result itself")
	}
}

// flagFlow: the boolean "cache after parsing" flag is threaded unchanged through the lookup/parse cycle.
func (c16) flagFlow(c *an.Ctx, seed *types.Var) {
	p := c.P
	info := p.Jet.TypesInfo
	if seed == nil {
		c.Anchor("C16.nocache", "boolean cache flag parameter guarding Cache.Put")
		return
	}
	type slot struct {
		fn  *an.Fn
		idx int
	}
	flag := map[*types.Var]slot{}
	for _, f := range p.Units() {
		if f.Sig == nil || f.Obj == nil {
			continue
		}
		for i := 0; i < f.Sig.Params().Len(); i++ {
			if f.Sig.Params().At(i) == seed {
				flag[seed] = slot{f, i}
			}
		}
	}
	// closure: a bool param passed at a flag position is a flag
	for changed := true; changed; {
		changed = false
		for _, f := range p.Fns { // interprocedural rule: new helpers are ordinary links of the chain
			if f.Body == nil || f.Pkg != p.Jet {
				continue
			}
			ast.Inspect(f.Body, func(n ast.Node) bool {
				call, ok := n.(*ast.CallExpr)
				if !ok {
					return true
				}
				g := p.FnByObj[an.Callee(info, call)]
				if g == nil || g.Sig == nil {
					return true
				}
				for i := 0; i < g.Sig.Params().Len() && i < len(call.Args); i++ {
					if _, isFlag := flag[g.Sig.Params().At(i)]; !isFlag {
						continue
					}
					if id, ok := an.Unparen(call.Args[i]).(*ast.Ident); ok {
						if pv, ok := an.ObjOf(info, id).(*types.Var); ok {
							root := f.Root()
							if idx, isParam := an.IsParam(root, pv); isParam && idx >= 0 {
								if _, known := flag[pv]; !known {
									flag[pv] = slot{root, idx}
									changed = true
								}
							}
						}
					}
				}
				return true
			})
		}
	}
	c.Expect("C16.nocache", "functions carrying the cache flag", len(flag), 5)
	parse := p.Parse()
	var names []string
	for pv, s := range flag {
		names = append(names, fmt.Sprintf("%s(%s)", s.fn.Name, pv.Name()))
	}
	sort.Strings(names)
	c.Note("cache-flag parameters: %v", names)
	// obligations at every call of a flag-carrying function
	nSites := 0
	for _, f := range p.Fns { // interprocedural rule: new helpers are ordinary links of the chain
		if f.Body == nil || f.Lit != nil && false {
			continue
		}
		an.InspectBody(f, func(n ast.Node) bool {
			call, ok := n.(*ast.CallExpr)
			if !ok {
				return true
			}
			g := p.FnByObj[an.Callee(f.Info(), call)]
			if g == nil || g.Sig == nil {
				return true
			}
			for i := 0; i < g.Sig.Params().Len() && i < len(call.Args); i++ {
				if _, isFlag := flag[g.Sig.Params().At(i)]; !isFlag {
					continue
				}
				nSites++
				c.CallSites++
				arg := an.Unparen(call.Args[i])
				key := f.Name + "→" + g.Name
				tv := f.Info().Types[arg]
				root := f.Root()
				inCycle := parse[root]
				if id, ok := arg.(*ast.Ident); ok && tv.Value == nil {
					pv, _ := an.ObjOf(f.Info(), id).(*types.Var)
					if _, isFlag := flag[pv]; isFlag {
						// must not be reassigned
						if len(an.LocalDefs(root, pv)) > 0 {
							c.Bad("C16.nocache", key, call.Pos(), nil, "the cache flag %q is reassigned in %s before being passed on", pv.Name(), root.Name)
						} else {
							c.OK("C16.nocache", key, call.Pos(), "passes its own cache flag %q", pv.Name())
						}
						continue
					}
					c.Bad("C16.nocache", key, call.Pos(), nil, "passes %s, which is not the caller's cache flag, as the cache flag of %s", an.Str(arg), g.Name)
					continue
				}
				if tv.Value != nil && tv.Value.Kind() == constant.Bool {
					val := constant.BoolVal(tv.Value)
					switch {
					case inCycle:
						c.Bad("C16.nocache", key, call.Pos(), nil,
							"%s lies inside the parse cycle (reachable from Set.parse) but passes the constant %v instead of its own cache flag: templates pulled in by Set.Parse would be cached (or never cached)", root.Name, val)
					case root.Name == "(*Set).Parse" && val:
						c.Bad("C16.nocache", key, call.Pos(), nil, "Set.Parse must not add anything to the cache but passes true")
					default:
						c.OK("C16.nocache", key, call.Pos(), "entry point outside the parse cycle passes constant %v", val)
					}
					continue
				}
				c.Bad("C16.nocache", key, call.Pos(), nil, "cache flag argument %s is neither the caller's flag nor a constant", an.Str(arg))
			}
			return true
		})
	}
	c.Expect("C16.nocache", "call sites passing a cache flag", nSites, 8)
	// Set.Parse specifically passes false
	if sp := c.Fn("C16.nocache", "(*Set).Parse"); sp != nil {
		okParse := false
		for _, call := range p.CallsIn(sp, setParse) {
			if len(call.Args) == 3 {
				if tv := sp.Info().Types[call.Args[2]]; tv.Value != nil && tv.Value.Kind() == constant.Bool && !constant.BoolVal(tv.Value) {
					okParse = true
				}
			}
		}
		c.Check(okParse, "C16.nocache", "(*Set).Parse/false", sp.Pos(), "Set.Parse parses with the cache flag false", "Set.Parse does not call parse with the constant false")
	}
}

// extensions: the extension list is only ranged over; candidates are path+ext; first hit returns; Open gets what Exists accepted.
func (c16) extensions(c *an.Ctx) {
	p := c.P
	info := p.Jet.TypesInfo
	nLoops := 0
	for _, f := range p.Units() {
		if f.Pkg != p.Jet || f.Body == nil {
			continue
		}
		an.InspectOwn(f, func(n ast.Node) bool {
			sel, ok := n.(*ast.SelectorExpr)
			if !ok || p.FieldKey(info, sel) != extsField {
				return true
			}
			// classify the use
			encl := an.EnclosingStmts(f, sel)
			var parent ast.Node
			if len(encl) > 0 {
				parent = encl[len(encl)-1]
			}
			switch ps := parent.(type) {
			case *ast.RangeStmt:
				if ps.X == ast.Expr(sel) {
					nLoops++
					r.extLoop(c, f, ps)
					return true
				}
			case *ast.AssignStmt:
				for i, l := range ps.Lhs {
					if l == ast.Expr(sel) {
						// option / constructor store: the list is taken over as it was given
						if len(ps.Rhs) == len(ps.Lhs) {
							key := f.Name + "/stored-as-given"
							if why := c16asGiven(p, f, ps.Rhs[i], 0); why != "" {
								c.Bad("C16.ext", key, ps.Pos(), nil, "%s stores a list into Set.extensions that is not the configured one, element for element (%s): candidate names are no longer <name>+<configured extension> in the configured order", f.Name, why)
							} else {
								c.OK("C16.ext", key, ps.Pos(), "the configured extension list is stored as given")
							}
						}
						return true
					}
				}
			case *ast.KeyValueExpr:
				return true
			}
			c.Bad("C16.ext", f.Name+"/use", sel.Pos(), nil, "Set.extensions is used other than by ranging over it (%s): the configured order is no longer tried strictly front to back", an.Str(parent))
			return true
		})
	}
	c.Expect("C16.ext", "loops over Set.extensions", nLoops, 2)
	// the loader and the cache are asked about candidates only: every Loader.Exists / Cache.Get of the Set
	// lies inside a loop over the configured extensions (a probe of the bare name in front of the loop
	// lets it win whatever position "" has in the list — or although it is not in the list at all)
	nProbe := 0
	for _, f := range p.Units() {
		if f.Pkg != p.Jet || f.Body == nil {
			continue
		}
		finfo := f.Info()
		var probes []*ast.CallExpr
		probes = append(probes, p.CallsIn(f, "(jet.Loader).Exists")...)
		probes = append(probes, p.CallsIn(f, "(jet.Cache).Get")...)
		for _, call := range probes {
			if recv := an.Receiver(call); recv == nil || !strings.HasPrefix(p.FieldKey(finfo, recv), "Set.") {
				continue // not the Set's own loader/cache (a loader delegating to another loader)
			}
			nProbe++
			inLoop := false
			for _, enc := range an.EnclosingStmts(f, call) {
				if rs, ok := enc.(*ast.RangeStmt); ok {
					if g := p.OwnerFn(rs.Pos()); g != nil && p.FieldKey(g.Info(), rs.X) == "Set.extensions" {
						inLoop = true
					}
				}
			}
			key := f.Name + "/probe:" + an.CalleeName(finfo, call)
			c.Check(inLoop, "C16.ext", key, call.Pos(), "the loader/cache is asked inside the loop over the configured extensions",
				f.Name+" asks the loader or the cache about "+an.Str(call.Args[0])+" outside the loop over the configured extensions: that name wins regardless of the configured order")
		}
	}
	c.Expect("C16.ext", "Loader.Exists / Cache.Get probes of the Set", nProbe, 2)
	// the string that Exists accepted is the one opened and parsed: follow the argument
	for _, s := range p.AllCalls(ldOpen) {
		if s.Fn.Pkg != p.Jet {
			continue
		}
		key := s.Fn.Name + "/open-arg"
		id, ok := an.Unparen(s.Call.Args[0]).(*ast.Ident)
		idx, isParam := 0, false
		if ok {
			idx, isParam = an.IsParam(s.Fn, an.ObjOf(info, id))
		}
		if !ok || !isParam || len(an.LocalDefs(s.Fn, an.ObjOf(info, id))) > 0 {
			c.Bad("C16.ext", key, s.Call.Pos(), nil, "Loader.Open is not called with the unmodified path parameter of %s", s.Fn.Name)
			continue
		}
		c.OK("C16.ext", key, s.Call.Pos(), "Open receives the path parameter unchanged")
		// callers pass the variable that Exists accepted
		for _, cs := range p.AllCalls(an.FuncName(s.Fn.Obj)) {
			ck := cs.Fn.Name + "→" + s.Fn.Name
			arg, ok := an.Unparen(cs.Call.Args[idx]).(*ast.Ident)
			accepted := false
			if ok {
				for _, ex := range p.CallsIn(cs.Fn, ldExists) {
					if eid, ok := an.Unparen(ex.Args[0]).(*ast.Ident); ok && an.ObjOf(info, eid) == an.ObjOf(info, arg) {
						accepted = true
					}
				}
			}
			c.Check(accepted, "C16.ext", ck, cs.Call.Pos(), "loads the very path that Exists accepted", "the path handed to the loading function is not the one Loader.Exists accepted")
		}
		// parse receives the same name
		for _, pc := range p.CallsIn(s.Fn, setParse) {
			pid, ok := an.Unparen(pc.Args[0]).(*ast.Ident)
			c.Check(ok && an.ObjOf(info, pid) == an.ObjOf(info, id), "C16.ext", s.Fn.Name+"/parse-name", pc.Pos(), "the template is named by the path it was opened under", "the template is parsed under another name than the path it was opened under")
		}
	}
}

func (c16) extLoop(c *an.Ctx, f *an.Fn, rs *ast.RangeStmt) {
	info := f.Info()
	key := f.Name + "/loop"
	extVar, _ := rs.Value.(*ast.Ident)
	if extVar == nil {
		c.Bad("C16.ext", key, rs.Pos(), nil, "the loop over the extensions does not bind the extension")
		return
	}
	ext := an.ObjOf(info, extVar)
	// the lookup call inside the loop
	var lookup *ast.CallExpr
	ast.Inspect(rs.Body, func(n ast.Node) bool {
		if call, ok := n.(*ast.CallExpr); ok && an.IsCallTo(info, call, cacheGet, ldExists) && lookup == nil {
			lookup = call
		}
		return true
	})
	if lookup == nil {
		c.Bad("C16.ext", key, rs.Pos(), nil, "no Cache.Get / Loader.Exists call inside the loop over the extensions")
		return
	}
	// candidate = <string param> + ext
	cand := an.Unparen(lookup.Args[0])
	if id, ok := cand.(*ast.Ident); ok {
		defs := an.LocalDefs(f, an.ObjOf(info, id))
		if len(defs) == 1 && defs[0] != nil {
			cand = an.Unparen(defs[0])
		}
	}
	okCand := false
	if b, ok := cand.(*ast.BinaryExpr); ok && b.Op == token.ADD {
		l, lok := an.Unparen(b.X).(*ast.Ident)
		rr, rok := an.Unparen(b.Y).(*ast.Ident)
		if lok && rok && an.ObjOf(info, rr) == ext {
			if _, isParam := an.IsParam(f, an.ObjOf(info, l)); isParam && len(an.LocalDefs(f, an.ObjOf(info, l))) == 0 {
				okCand = true
			}
		}
	}
	c.Check(okCand, "C16.ext", key+"/candidate", lookup.Pos(), "candidate is <path parameter> + <extension>", "the candidate looked up is not <path parameter> + <current extension>")
	// every candidate is probed: nothing cuts an iteration short before the lookup (a `continue` in front of it —
	// "a name that already has an extension needs no further probes" — makes the cache and the loader disagree on the
	// candidates of a name: what one remembers under <name>+<ext> the other never asks for)
	skip := token.NoPos
	ast.Inspect(rs.Body, func(n ast.Node) bool {
		switch b := n.(type) {
		case *ast.FuncLit:
			return false
		case *ast.BranchStmt:
			if b.Pos() < lookup.Pos() && !skip.IsValid() {
				skip = b.Pos()
			}
		case *ast.ReturnStmt:
			if b.Pos() < lookup.Pos() && !skip.IsValid() {
				skip = b.Pos()
			}
		}
		return true
	})
	c.Check(!skip.IsValid(), "C16.ext", key+"/every-candidate", firstValid(skip, rs.Pos()), "every configured extension is probed until the first hit",
		"an iteration of the loop over the extensions can end before its candidate was looked up: some candidates <name>+<extension> are never asked for, so the cache (or the loader) no longer sees the names the other one uses")
	// first existing wins: once a candidate was found, no further candidate is probed — on any path,
	// including failures of the load that follows (typestate over the loop: HIT is absorbing up to return)
	hitVars := map[types.Object]bool{}
	an.InspectOwn(f, func(n ast.Node) bool {
		as, ok := n.(*ast.AssignStmt)
		if !ok || len(as.Rhs) != 1 || an.Unparen(as.Rhs[0]) != ast.Expr(lookup) {
			return true
		}
		for _, l := range as.Lhs {
			if id, ok := l.(*ast.Ident); ok && id.Name != "_" {
				hitVars[an.ObjOf(info, id)] = true
			}
		}
		return true
	})
	isHit := func(cond ast.Expr, val bool) bool {
		e := an.Unparen(cond)
		want := true
		if b, ok := e.(*ast.BinaryExpr); ok && (b.Op == token.NEQ || b.Op == token.EQL) {
			x, y := an.Unparen(b.X), an.Unparen(b.Y)
			if an.Str(y) != "nil" {
				x, y = y, x
			}
			if an.Str(y) != "nil" {
				return false
			}
			e, want = x, b.Op == token.NEQ
		}
		if e == ast.Expr(lookup) {
			return val == want
		}
		if id, ok := e.(*ast.Ident); ok && hitVars[an.ObjOf(info, id)] {
			return val == want
		}
		return false
	}
	first := true
	nLookups := 0
	var trailBad []string
	hooks := an.Hooks{
		Branch: func(x *an.Explorer, cond ast.Expr, val bool, st *an.State) {
			if isHit(cond, val) {
				st.Set("hit", "1")
			}
		},
		Call: func(x *an.Explorer, call *ast.CallExpr, st *an.State) {
			if call == lookup {
				nLookups++
				if st.Get("hit") != "" && first {
					first = false
					trailBad = an.Facts(st)
				}
			}
		},
	}
	xx := c.P.NewExplorer(f, hooks)
	xx.Run(nil)
	c.States += xx.Visited
	if nLookups == 0 || xx.Undecided != "" {
		c.Undecided("C16.ext", key+"/first-wins", rs.Pos(), "the candidate lookup was not reached by the exploration %s", xx.Undecided)
		return
	}
	_ = trailBad
	c.Check(first, "C16.ext", key+"/first-wins", rs.Pos(), "the loop returns at the first hit", "after a candidate was found the loop can go on to probe a later extension: a later extension can win (e.g. when loading the first existing one fails)")
}

// c16asGiven returns "" when e is the caller's list unchanged: a parameter, a literal of constants, or a local
// copy of such a list whose elements are only ever the source's elements themselves.
func c16asGiven(p *an.Prog, f *an.Fn, e ast.Expr, depth int) string {
	info := f.Info()
	e = an.Unparen(e)
	if depth > 3 {
		return "cannot be followed"
	}
	switch x := e.(type) {
	case *ast.CompositeLit:
		for _, el := range x.Elts {
			if tv, ok := info.Types[el]; !ok || tv.Value == nil {
				return "a literal with a computed element"
			}
		}
		return ""
	case *ast.SliceExpr:
		if x.Low == nil && x.High == nil {
			return c16asGiven(p, f, x.X, depth+1)
		}
		return "a sub-slice"
	case *ast.CallExpr:
		if an.CalleeName(info, x) == "builtin.append" && len(x.Args) == 2 && x.Ellipsis.IsValid() {
			// append([]string(nil), src...) / append(make([]string, 0, n), src...)
			if why := c16emptyList(info, x.Args[0]); why != "" {
				return why
			}
			return c16asGiven(p, f, x.Args[1], depth+1)
		}
		return "the result of " + an.Str(x.Fun)
	case *ast.Ident:
		obj := an.ObjOf(info, x)
		owner := p.OwnerFn(x.Pos())
		if owner == nil {
			owner = f
		}
		for g := owner; g != nil; g = g.Parent {
			if _, isParam := an.IsParam(g, obj); isParam {
				if len(an.LocalDefs(g, obj)) > 0 {
					return "the parameter is re-assigned"
				}
				return ""
			}
		}
		// a local list: made empty / with a length, filled only with the source's own elements
		defs := an.LocalDefs(f.Root(), obj)
		if len(defs) == 0 {
			return "no definition"
		}
		var src types.Object
		for _, d := range defs {
			if d == nil {
				return "a definition that is not an expression"
			}
			d = an.Unparen(d)
			if call, ok := d.(*ast.CallExpr); ok && an.CalleeName(info, call) == "builtin.make" {
				continue
			}
			if why := c16asGiven(p, f, d, depth+1); why != "" {
				return why
			}
		}
		// element stores and copy()
		why := ""
		an.InspectOwn(f.Root(), func(n ast.Node) bool {
			switch s := n.(type) {
			case *ast.AssignStmt:
				for i, l := range s.Lhs {
					ix, ok := an.Unparen(l).(*ast.IndexExpr)
					if !ok {
						continue
					}
					if id, ok := an.Unparen(ix.X).(*ast.Ident); !ok || an.ObjOf(info, id) != obj {
						continue
					}
					if len(s.Rhs) != len(s.Lhs) {
						why = "an element is stored from a multi-value expression"
						continue
					}
					// the element must be the range value of a loop over a given list, never re-assigned
					rid, ok := an.Unparen(s.Rhs[i]).(*ast.Ident)
					if !ok {
						why = "the element " + an.Str(s.Rhs[i]) + " is computed"
						continue
					}
					robj := an.ObjOf(info, rid)
					fromRange := false
					an.InspectOwn(f.Root(), func(m ast.Node) bool {
						if rs, ok := m.(*ast.RangeStmt); ok {
							if v, ok := rs.Value.(*ast.Ident); ok && an.ObjOf(info, v) == robj && c16asGiven(p, f, rs.X, depth+1) == "" {
								fromRange = true
							}
						}
						return true
					})
					nDefs := 0
					for range an.LocalDefs(f.Root(), robj) {
						nDefs++
					}
					if !fromRange || nDefs > 1 {
						why = "the element " + rid.Name + " is not (only) an element of the configured list"
					}
				}
			case *ast.CallExpr:
				if an.CalleeName(info, s) == "builtin.copy" && len(s.Args) == 2 {
					if id, ok := an.Unparen(s.Args[0]).(*ast.Ident); ok && an.ObjOf(info, id) == obj {
						if w := c16asGiven(p, f, s.Args[1], depth+1); w != "" {
							why = w
						}
					}
				}
			}
			return true
		})
		_ = src
		return why
	}
	return "the expression " + an.Str(e)
}

func c16emptyList(info *types.Info, e ast.Expr) string {
	e = an.Unparen(e)
	if call, ok := e.(*ast.CallExpr); ok {
		if tv, ok := info.Types[an.Unparen(call.Fun)]; ok && tv.IsType() && len(call.Args) == 1 {
			if atv, ok := info.Types[call.Args[0]]; ok && atv.IsNil() {
				return ""
			}
		}
		if an.CalleeName(info, call) == "builtin.make" && len(call.Args) >= 2 {
			if tv, ok := info.Types[call.Args[1]]; ok && tv.Value != nil && tv.Value.ExactString() == "0" {
				return ""
			}
		}
	}
	if cl, ok := e.(*ast.CompositeLit); ok && len(cl.Elts) == 0 {
		return ""
	}
	if tv, ok := info.Types[e]; ok && tv.IsNil() {
		return ""
	}
	return "appended to a list that is not empty"
}

func firstValid(a, b token.Pos) token.Pos {
	if a.IsValid() {
		return a
	}
	return b
}
