package rules

import (
	"fmt"
	"go/ast"
	"go/token"
	"go/types"
	"regexp"
	"sort"
	"strings"

	"jetverif/an"
)

func init() {
	register(&Property{
		ID:  "C17",
		Run: runC17,
		Meta: an.Meta{
			Technique: "structure of the recover guard, guard facts on every true-returning CFG path of the two isset implementations, exhaustiveness of the nil-able kind table, and sibling agreement of the := / = two-value lookup",
			Explanation: "(C17.total) Runtime.isSet installs, before any statement that can panic, a deferred literal that calls recover(), sets the named result to false on a non-nil recovery and never re-panics; Arguments.IsSet " +
				"routes every non-placeholder argument through isSet; the isset built-in asks IsSet for every index 0 ≤ i < NumOfArguments() and answers false at the first false. (C17.nonnil) every exit of " +
				"isSet / Arguments.IsSet that answers true for an access path is either the expression `err == nil && notNil(<resolved>)`, or lies behind those two facts; the implicit piped argument and " +
				"the `_` slot answer notNil(piped value); exits that answer a constant true without having looked at a value are reported. (C17.steps) the field-path loop tests err and notNil for every " +
				"step inside the loop and the index form tests base and index recursively before resolving. (C17.kinds) notNil answers false for an invalid value, consults IsNil exactly for " +
				"{Chan, Func, Interface, Map, Ptr, Slice} and answers true otherwise. (C17.lookup) `v, ok := m[k]` and `v, ok = m[k]` both bind the first target to the looked-up value and the second to " +
				"IsValid() of it, and the parser selects this form only for two targets and one index-expression source. (C17.total, continued) the guard is explored: every way out of it that may have recovered something (a path on which nothing is known counts) has set the result to false, whatever shape the test of recover() has. (C17.lookup form, continued) the three conditions are required where the node is built, for every state in which the flag is not known to be false — whether the flag is set to true under them or computed from them. (C17.steps field-path, continued) the loop is a plain index walk or a range over the segments, each step resolves the segment on the value reached so far and stores the result into that very variable (object identity: a := in the loop that shadows it is reported), nothing but a return leaves the loop.",
			NotDecided:  "\"exists\" for arbitrary data graphs is resolveIndex's reflection (C06); a field path with zero segments cannot be built by the parser (newField splits a non-empty name) and is not considered.",
			Assumptions: []string{"reflect.Value.IsNil is defined exactly for Chan, Func, Interface, Map, Pointer, Slice and UnsafePointer"},
			Trusted:     commonTrusted,
		},
		Mutants: []Mutant{
			{Name: "guard re-panics runtime errors", File: "eval.go", Old: "\t\tif r := recover(); r != nil {\n\t\t\t// something panicked while evaluating node\n", New: "\t\tif r := recover(); r != nil {\n\t\t\tif _, isRT := r.(runtime.Error); isRT {\n\t\t\t\tpanic(r)\n\t\t\t}\n", Rule: "C17.total"},
			{Name: "guard installed after the node type is read", File: "eval.go", Old: "\tscope, context, content := st.scope, st.context, st.content\n\n\tdefer func() {\n\t\tif r := recover(); r != nil {\n\t\t\t// something panicked while evaluating node\n\t\t\tst.scope, st.context, st.content = scope, context, content\n\t\t\tok = false\n\t\t}\n\t}()\n\n\tnodeType := node.Type()\n", New: "\tscope, context, content := st.scope, st.context, st.content\n\tnodeType := node.Type()\n\n\tdefer func() {\n\t\tif r := recover(); r != nil {\n\t\t\t// something panicked while evaluating node\n\t\t\tst.scope, st.context, st.content = scope, context, content\n\t\t\tok = false\n\t\t}\n\t}()\n\n", Rule: "C17.total"},
			{Name: "maps can no longer be nil for isset", File: "eval.go", Old: "\tcase reflect.Chan, reflect.Func, reflect.Interface, reflect.Map, reflect.Ptr, reflect.Slice:\n\t\treturn !v.IsNil()", New: "\tcase reflect.Chan, reflect.Func, reflect.Interface, reflect.Ptr, reflect.Slice:\n\t\treturn !v.IsNil()", Rule: "C17.kinds"},
			{Name: "only the last step of a field path is tested", File: "eval.go", Old: "\t\t\tresolved, err = resolveIndex(resolved, reflect.Value{}, node.Ident[i])\n\t\t\tif err != nil || !notNil(resolved) {\n\t\t\t\treturn false\n\t\t\t}\n\t\t}", New: "\t\t\tresolved, err = resolveIndex(resolved, reflect.Value{}, node.Ident[i])\n\t\t\tif err != nil {\n\t\t\t\treturn false\n\t\t\t}\n\t\t}\n\t\tif !notNil(resolved) {\n\t\t\treturn false\n\t\t}", Rule: "C17.steps"},
			{Name: "identifier exists as soon as it resolves (nil value counts as set)", File: "eval.go", Old: "\t\tvalue, err := st.resolve(node.String())\n\t\treturn err == nil && notNil(value)", New: "\t\tvalue, err := st.resolve(node.String())\n\t\t_ = value\n\t\treturn err == nil", Rule: "C17.nonnil"},
			{Name: "isset answers after the first argument", File: "default.go", Old: "\t\t\tfor i := 0; i < a.NumOfArguments(); i++ {\n\t\t\t\tif !a.IsSet(i) {\n\t\t\t\t\treturn valueBoolFALSE\n\t\t\t\t}\n\t\t\t}\n\t\t\treturn valueBoolTRUE", New: "\t\t\tfor i := 0; i < a.NumOfArguments(); i++ {\n\t\t\t\tif !a.IsSet(i) {\n\t\t\t\t\treturn valueBoolFALSE\n\t\t\t\t}\n\t\t\t\tbreak\n\t\t\t}\n\t\t\treturn valueBoolTRUE", Rule: "C17.total"},
			{Name: "piped argument counts as set without looking at it (original defect)", File: "func.go", Old: "\t\tif argumentIndex == 0 {\n\t\t\treturn notNil(*a.pipedVal)\n\t\t}", New: "\t\tif argumentIndex == 0 {\n\t\t\treturn true\n\t\t}", Rule: "C17.nonnil"},
			{Name: "ok of the two-value := lookup is always true", File: "eval.go", Old: "\t\t\tif value.IsValid() {\n\t\t\t\tst.variables[set.Left[1].(*IdentifierNode).Ident] = valueBoolTRUE\n\t\t\t} else {\n\t\t\t\tst.variables[set.Left[1].(*IdentifierNode).Ident] = valueBoolFALSE\n\t\t\t}", New: "\t\t\tst.variables[set.Left[1].(*IdentifierNode).Ident] = valueBoolTRUE", Rule: "C17.lookup"},
			{Name: "ok of the two-value = lookup is inverted", File: "eval.go", Old: "\t\t\tif value.IsValid() {\n\t\t\t\tst.executeSet(set.Left[1], valueBoolTRUE)\n\t\t\t} else {\n\t\t\t\tst.executeSet(set.Left[1], valueBoolFALSE)\n\t\t\t}", New: "\t\t\tif !value.IsValid() {\n\t\t\t\tst.executeSet(set.Left[1], valueBoolTRUE)\n\t\t\t} else {\n\t\t\t\tst.executeSet(set.Left[1], valueBoolFALSE)\n\t\t\t}", Rule: "C17.lookup"},
			{Name: "index form resolves without testing base and index first", File: "eval.go", Old: "\t\tif !st.isSet(node.Base) || !st.isSet(node.Index) {\n\t\t\treturn false\n\t\t}\n\n\t\tbase := st.evalPrimaryExpressionGroup(node.Base)\n\t\tindex := st.evalPrimaryExpressionGroup(node.Index)\n\n\t\tresolved, err := resolveIndex(base, index, \"\")\n\t\treturn err == nil && notNil(resolved)\n\tcase NodeIdentifier:", New: "\t\tif !st.isSet(node.Base) {\n\t\t\treturn false\n\t\t}\n\n\t\tbase := st.evalPrimaryExpressionGroup(node.Base)\n\t\tindex := st.evalPrimaryExpressionGroup(node.Index)\n\n\t\tresolved, err := resolveIndex(base, index, \"\")\n\t\treturn err == nil && notNil(resolved)\n\tcase NodeIdentifier:", Rule: "C17.steps"},
		},
	})
}

func runC17(c *an.Ctx) {
	devModeOnlyLookup(c, "C17.steps")
	c06indexArgs(c, "C17.steps")
	p := c.P
	isSet := c.Fn("C17.total", "(*Runtime).isSet")
	argIsSet := c.Fn("C17.total", "(*Arguments).IsSet")
	if isSet == nil || argIsSet == nil {
		return
	}
	info := isSet.Info()
	_ = info

	// ---------------------------------------------------------------- C17.total
	okGuard, why := false, "isSet installs no deferred function literal that recovers"
	// the guard: the first deferred literal of the body that recovers; what stands before it cannot panic
	// (copies of the receiver's fields into locals)
	guardAt := -1
	for i, s := range isSet.Body.List {
		if d, ok := s.(*ast.DeferStmt); ok {
			if fl, ok := an.Unparen(d.Call.Fun).(*ast.FuncLit); ok && len(p.CallsIn(p.FnByLit[fl], "builtin.recover")) > 0 {
				guardAt = i
				break
			}
		}
		if !c17stmtCannotPanic(p, isSet, s) {
			why = "isSet executes `" + an.Str(s) + "`, which can panic, before its recovering guard is installed"
			break
		}
	}
	if guardAt >= 0 {
		if d, ok := isSet.Body.List[guardAt].(*ast.DeferStmt); ok {
			if fl, ok := an.Unparen(d.Call.Fun).(*ast.FuncLit); ok {
				lit := p.FnByLit[fl]
				recovers := len(p.CallsIn(lit, "builtin.recover")) == 1
				repanics := len(p.CallsDeep(lit, "builtin.panic")) > 0
				result := isSet.Sig.Results().At(0)
				// every way out of the guard that may have recovered something has set the result to false
				recBranch, isRecovered := recTracker(lit)
				linfo := lit.Info()
				gx := p.NewExplorer(lit, an.Hooks{Branch: recBranch, PreAssign: func(x *an.Explorer, lhs, rhs ast.Expr, stmt ast.Node, st *an.State) {
					if id, isId := an.Unparen(lhs).(*ast.Ident); isId && rhs != nil && an.ObjOf(linfo, id) == types.Object(result) {
						if an.Str(an.Unparen(rhs)) == "false" {
							st.Set("res", "false")
						} else {
							st.Set("res", "other")
						}
					}
				}})
				gx.Run(nil)
				c.States += gx.Visited
				setsFalse := gx.Undecided == ""
				nRec := 0
				for _, ex := range gx.Exits {
					if ex.Kind == an.ExitReturn && isRecovered(ex.State) {
						nRec++
						if ex.State.Get("res") != "false" {
							setsFalse = false
						}
					}
				}
				if nRec == 0 {
					setsFalse = false
				}
				switch {
				case !recovers:
					why = "the deferred guard of isSet does not call recover() exactly once"
				case repanics:
					why = "the deferred guard of isSet re-panics some recovered values: isset can fail"
				case !setsFalse:
					why = "the deferred guard of isSet does not set the result to false when something was recovered"
				case result.Name() == "":
					why = "isSet has no named result the guard could set"
				default:
					okGuard = true
				}
			}
		}
	}
	c.Check(okGuard, "C17.total", "(*Runtime).isSet/guard", isSet.Pos(), "every panic below isSet becomes `false` (guard is the first statement, recovers everything, never re-panics)", why)

	// Arguments.IsSet → isSet for expressions
	{
		ainfo := argIsSet.Info()
		routes := len(p.CallsIn(argIsSet, "(*jet.Runtime).isSet")) >= 1
		// no other evaluation of argument expressions in IsSet
		evals := len(p.CallsIn(argIsSet, "(*jet.Runtime).evalPrimaryExpressionGroup"))
		c.Check(routes && evals == 0, "C17.total", "(*Arguments).IsSet/routes-through-isSet", argIsSet.Pos(), "argument expressions are only examined through the panic-proof isSet",
			"Arguments.IsSet evaluates argument expressions outside Runtime.isSet: an evaluation error would escape from isset")
		_ = ainfo
	}
	// the built-in
	if bi := c.Fn("C17.total", `init/"isset"`); bi != nil {
		binfo := bi.Info()
		ok, why := false, "the isset built-in does not loop over all argument indexes"
		// the loop: for v := 0; v < <Arguments>.NumOfArguments(); v++ (the bound may be held in a local)
		var loop *ast.ForStmt
		var loopVar types.Object
		an.InspectOwn(bi, func(n ast.Node) bool {
			if fs, isFor := n.(*ast.ForStmt); isFor && loop == nil {
				if v, bound, counting := countingLoop(bi, fs); counting && bound == "$p0.NumOfArguments()" {
					loop, loopVar = fs, v
				} else {
					why = "the isset loop is `for " + strings.ReplaceAll(an.StmtStr(fs.Init)+";"+an.Str(fs.Cond)+";"+an.StmtStr(fs.Post), " ", "") + "`, not over every index 0 ≤ i < NumOfArguments()"
				}
			}
			return true
		})
		if loop != nil {
			boolVal := func(e ast.Expr) string {
				switch an.Norm(bi, e) {
				case "valueBoolTRUE", "reflect.ValueOf(true)":
					return "T"
				case "valueBoolFALSE", "reflect.ValueOf(false)":
					return "F"
				}
				return "?"
			}
			asked := 0
			hooks := an.Hooks{
				Branch: func(x *an.Explorer, cond ast.Expr, val bool, st *an.State) {
					e := an.Unparen(cond)
					if e == an.Unparen(loop.Cond) && !val {
						st.Set("exhausted", "1")
					}
					neg := false
					if u, isNot := e.(*ast.UnaryExpr); isNot && u.Op == token.NOT {
						neg, e = true, an.Unparen(u.X)
					}
					if call, isCall := e.(*ast.CallExpr); isCall && an.IsCallTo(binfo, call, "(*jet.Arguments).IsSet") && len(call.Args) == 1 {
						if id, isId := an.Unparen(call.Args[0]).(*ast.Ident); isId && an.ObjOf(binfo, id) == loopVar {
							asked++
							if val == neg { // IsSet(i) is false on this branch
								st.Set("unset", "1")
							}
						}
					}
				},
			}
			x := p.NewExplorer(bi, hooks)
			x.Run(nil)
			c.States += x.Visited
			ok, why = asked > 0, "the isset loop does not decide on a.IsSet(i) for the loop index"
			sawT, sawF := false, false
			for _, ex := range x.Exits {
				if ex.Kind != an.ExitReturn || ex.Ret == nil || len(ex.Ret.Results) != 1 {
					continue
				}
				switch boolVal(ex.Ret.Results[0]) {
				case "T":
					sawT = true
					if ex.State.Get("unset") != "" || ex.State.Get("exhausted") == "" {
						ok, why = false, "isset can answer true although an argument was found unset, or before every argument index was asked"
					}
				case "F":
					sawF = true
					if ex.State.Get("unset") == "" {
						ok, why = false, "isset can answer false although no argument was found unset"
					}
				default:
					ok, why = false, "isset returns "+an.Str(ex.Ret.Results[0])+", which is neither the true nor the false value"
				}
			}
			if ok && !(sawT && sawF) {
				ok, why = false, "isset does not answer true after all arguments passed and false at the first unset one"
			}
		}
		c.Check(ok, "C17.total", `init/"isset"/all-arguments`, bi.Pos(), "isset asks IsSet for every argument and answers false at the first false", why)
	}

	// ---------------------------------------------------------------- C17.nonnil (+ steps)
	c17exits(c, isSet)
	c17argExits(c, argIsSet)
	c17steps(c, isSet)
	mapKeyRule(c, "C17.steps")
	c17kinds(c)
	c17lookup(c)
}

// isNonNilAnswer: expr is `err == nil && notNil(x)` (any order)
func isNonNilAnswer(info *types.Info, e ast.Expr) bool {
	hasErr, hasNotNil := false, false
	for _, cj := range conjuncts(e) {
		s := strings.ReplaceAll(an.Str(cj), " ", "")
		if s == "err==nil" || s == "nil==err" {
			hasErr = true
		}
		if call, ok := an.Unparen(cj).(*ast.CallExpr); ok && an.CalleeName(info, call) == "jet.notNil" {
			hasNotNil = true
		}
	}
	return hasErr && hasNotNil
}

func c17exits(c *an.Ctx, f *an.Fn) {
	p := c.P
	info := f.Info()
	x := p.NewExplorer(f, an.Hooks{})
	x.Run(nil)
	c.States += x.Visited
	type arm struct {
		ok    bool
		why   string
		pos   token.Pos
		trail []string
	}
	arms := map[string]*arm{}
	for _, ex := range x.Exits {
		if ex.Kind != an.ExitReturn || ex.Ret == nil {
			continue
		}
		// which arm of the node-type switch?
		name := "default"
		for k, v := range ex.State.Facts {
			pk := an.PlainKey(k)
			if v && strings.HasPrefix(pk, "Node") && strings.Contains(pk, " == ") && (strings.HasSuffix(pk, ".Type()") || strings.HasSuffix(pk, "nodeType")) {
				name = strings.SplitN(pk, " ", 2)[0]
			}
		}
		a := arms[name]
		if a == nil {
			a = &arm{ok: true, pos: ex.Ret.Pos()}
			arms[name] = a
		}
		var res ast.Expr
		if len(ex.Ret.Results) == 1 {
			res = an.Unparen(ex.Ret.Results[0])
		}
		switch {
		case res == nil:
			a.ok, a.why = false, "bare return"
		case an.Str(res) == "false":
		case isNonNilAnswer(info, res):
		case c17answerWithFacts(info, res, ex.State):
			// the error test was made by a guard clause in front of the answer: err == nil is a fact of the path
		case an.Str(res) == "true":
			// constant true: acceptable only behind the facts err == nil and notNil(...) (the field-path loop)
			hasErr, hasNotNil := false, false
			for k, v := range ex.State.Facts {
				pk := an.PlainKey(k)
				if v && (pk == "err == nil" || pk == "nil == err") {
					hasErr = true
				}
				if v && strings.HasPrefix(pk, "notNil(") {
					hasNotNil = true
				}
			}
			if !(hasErr && hasNotNil) {
				if name == "NodeField" {
					continue // zero path segments: cannot be built by the parser (see NotDecided)
				}
				a.ok, a.why, a.pos, a.trail = false, "answers true without having resolved the argument or tested the value with notNil", ex.Ret.Pos(), ex.Trail
			}
		default:
			a.ok, a.why, a.pos = false, "answers "+an.Str(res)+", which does not include both err == nil and notNil(<resolved value>)", ex.Ret.Pos()
		}
	}
	var names []string
	for n := range arms {
		names = append(names, n)
	}
	sort.Strings(names)
	c.Expect("C17.nonnil", "arms of isSet", len(names), 5)
	for _, n := range names {
		a := arms[n]
		key := "(*Runtime).isSet/" + n
		if a.ok {
			c.OK("C17.nonnil", key, a.pos, "every true answer for %s arguments lies behind err == nil and notNil(value)", n)
		} else {
			c.Bad("C17.nonnil", key, a.pos, a.trail, "isSet, %s arm: %s", n, a.why)
		}
	}
}

func c17argExits(c *an.Ctx, f *an.Fn) {
	info := f.Info()
	n := 0
	// the answers of IsSet: its own return statements, and those of a helper whose result it returns
	// (a predicate helper it merely consults in a condition answers nothing)
	var rets []*ast.ReturnStmt
	var collect func(g *an.Fn, depth int)
	collect = func(g *an.Fn, depth int) {
		an.InspectBody(g, func(nd ast.Node) bool {
			ret, ok := nd.(*ast.ReturnStmt)
			if !ok || len(ret.Results) != 1 {
				return true
			}
			if call, isCall := an.Unparen(ret.Results[0]).(*ast.CallExpr); isCall && depth < 3 {
				if h := c.P.NewHelperCallee(g, call); h != nil {
					collect(h, depth+1)
					return true
				}
			}
			rets = append(rets, ret)
			return true
		})
	}
	collect(f, 0)
	for _, ret := range rets {
		res := an.Unparen(ret.Results[0])
		s := an.Str(res)
		if s == "false" {
			continue
		}
		n++
		key := "(*Arguments).IsSet/return"
		good := false
		if call, isCall := res.(*ast.CallExpr); isCall {
			switch an.CalleeName(info, call) {
			case "(*jet.Runtime).isSet":
				good = true
			case "jet.notNil":
				good = strings.Contains(an.Str(call.Args[0]), "pipedVal")
			}
		}
		// a.pipedVal != nil && notNil(*a.pipedVal)
		for _, cj := range conjuncts(res) {
			if call, isCall := an.Unparen(cj).(*ast.CallExpr); isCall && an.CalleeName(info, call) == "jet.notNil" && strings.Contains(an.Str(call.Args[0]), "pipedVal") {
				good = true
			}
		}
		if good {
			c.OK("C17.nonnil", key, ret.Pos(), "answer %s looks at the value", s)
		} else {
			c.Bad("C17.nonnil", key, ret.Pos(), nil, "Arguments.IsSet answers %s without testing the argument's value with notNil / isSet: a nil piped or slot value counts as set", s)
		}
	}
	c.Expect("C17.nonnil", "value-dependent answers of Arguments.IsSet", n, 3)
}

func c17steps(c *an.Ctx, f *an.Fn) {
	p := c.P
	info := f.Info()
	// field-path loop
	if cc := caseClause(f, "NodeField"); cc == nil {
		c.Anchor("C17.steps", "case NodeField in isSet")
	} else {
		ok, why := false, "no loop over the path segments"
		armInspect(f, cc, func(n ast.Node) bool {
			// the loop walks every segment of the field path: `for i := 0; i < len(<path>); i++` using <path>[i], or a
			// range over <path> using its value
			var body *ast.BlockStmt
			var isElem func(e ast.Expr) bool
			switch l := n.(type) {
			case *ast.ForStmt:
				body = l.Body
				iv, list := c17plainWalk(info, l)
				if iv == nil || p.FieldKey(info, list) != "FieldNode.Ident" {
					why = "the segment loop is `for " + strings.ReplaceAll(an.StmtStr(l.Init)+";"+an.Str(l.Cond)+";"+an.StmtStr(l.Post), " ", "") + "`, not over every segment"
					return true
				}
				isElem = func(e ast.Expr) bool {
					ix, isIx := an.Unparen(e).(*ast.IndexExpr)
					if !isIx || p.FieldKey(info, ix.X) != "FieldNode.Ident" {
						return false
					}
					id, isId := an.Unparen(ix.Index).(*ast.Ident)
					return isId && an.ObjOf(info, id) == iv
				}
			case *ast.RangeStmt:
				body = l.Body
				if p.FieldKey(info, l.X) != "FieldNode.Ident" {
					why = "the segment loop ranges over `" + an.Str(l.X) + "`, not over the segments"
					return true
				}
				vid, isId := l.Value.(*ast.Ident)
				if !isId || l.Value == nil {
					why = "the segment loop does not use the segments it ranges over"
					return true
				}
				vo := an.ObjOf(info, vid)
				isElem = func(e ast.Expr) bool {
					id, isId := an.Unparen(e).(*ast.Ident)
					return isId && an.ObjOf(info, id) == vo
				}
			default:
				return true
			}
			// each step resolves the segment on the value reached so far and stores the result back into that very
			// variable (not into a new one declared by := in the loop); nothing leaves or cuts short the loop other than
			// a return, and a failing step answers false (that err == nil and notNil hold where true is answered is
			// C17.nonnil's part)
			resolves, tests, cut := false, false, ""
			var resolveCall *ast.CallExpr
			ast.Inspect(body, func(m ast.Node) bool {
				switch s := m.(type) {
				case *ast.FuncLit:
					return false
				case *ast.AssignStmt:
					if len(s.Rhs) == 1 && len(s.Lhs) >= 1 {
						if call, isCall := an.Unparen(s.Rhs[0]).(*ast.CallExpr); isCall && an.CalleeName(info, call) == "jet.resolveIndex" && len(call.Args) == 3 && isElem(call.Args[2]) {
							lid, ok1 := an.Unparen(s.Lhs[0]).(*ast.Ident)
							aid, ok2 := an.Unparen(call.Args[0]).(*ast.Ident)
							if ok1 && ok2 && an.ObjOf(info, lid) != nil && an.ObjOf(info, lid) == an.ObjOf(info, aid) {
								resolves = true
								resolveCall = call
							}
						}
					}
				case *ast.ReturnStmt:
					if len(s.Results) == 1 && an.Str(s.Results[0]) == "false" {
						tests = true
					}
				case *ast.BranchStmt:
					cut = s.Tok.String()
				}
				return true
			})
			// every step but the first starts from a value that was found to be non-nil: where the loop's resolve call is
			// reached again on a path, notNil(<the value it resolves on>) is known to hold
			untested := false
			if resolves && resolveCall != nil {
				var notNils []*ast.CallExpr
				an.InspectOwn(f, func(m ast.Node) bool {
					if call, isCall := m.(*ast.CallExpr); isCall && an.CalleeName(info, call) == "jet.notNil" && len(call.Args) == 1 {
						notNils = append(notNils, call)
					}
					return true
				})
				sx := p.NewExplorer(f, an.Hooks{Call: func(x *an.Explorer, call *ast.CallExpr, st *an.State) {
					if call != resolveCall {
						return
					}
					if st.Add("steps", 1) > 1 {
						bk, has := x.Key(call.Args[0])
						known := false
						for _, nn := range notNils {
							if k, ok := x.Key(nn.Args[0]); ok && has && k == bk {
								if t, kn := x.Truth(nn, st); kn && t {
									known = true
								}
							}
						}
						if !known {
							untested = true
						}
					}
					if st.Int("steps") > 2 {
						st.SetInt("steps", 2)
					}
				}})
				sx.Run(nil)
				c.States += sx.Visited
			}
			switch {
			case cut != "":
				why = "the segment loop contains `" + cut + "`: not every step of a field path is resolved and tested"
			case untested:
				why = "a step of a field path is resolved on a value that was not found to be non-nil (only the last step is tested): an intermediate nil value is dereferenced or counts as set"
			case resolves && tests:
				ok = true
			default:
				why = "not every step of a field path is resolved and tested (err != nil || !notNil → false) inside the loop: a nil intermediate value is dereferenced or counts as set"
			}
			return true
		})
		c.Check(ok, "C17.steps", "(*Runtime).isSet/field-path", cc.Pos(), "every segment of a field path is resolved and tested inside the loop", why)
	}
	// index form: base and index tested recursively before resolving
	if cc := caseClause(f, "NodeIndexExpr"); cc == nil {
		c.Anchor("C17.steps", "case NodeIndexExpr in isSet")
	} else {
		var resolve *ast.CallExpr
		armInspect(f, cc, func(n ast.Node) bool {
			if call, ok := n.(*ast.CallExpr); ok && an.CalleeName(info, call) == "jet.resolveIndex" {
				resolve = call
			}
			return true
		})
		ok := false
		if resolve != nil {
			pr := p.ProbeFn(f, []ast.Node{resolve}, an.Hooks{Call: func(x *an.Explorer, call *ast.CallExpr, st *an.State) {
				if an.CalleeName(info, call) == "(*jet.Runtime).isSet" && len(call.Args) == 1 {
					st.Set("tested:"+an.Str(call.Args[0]), "1")
				}
			}})
			c.States += pr.X.Visited
			ok = len(pr.At[resolve]) > 0
			for _, st := range pr.At[resolve] {
				if st.Get("tested:node.Base") == "" || st.Get("tested:node.Index") == "" {
					ok = false
				}
			}
		}
		c.Check(ok, "C17.steps", "(*Runtime).isSet/index-form", cc.Pos(), "base and index are tested with isSet before the index is resolved", "the index form resolves a[k] without first testing both a and k with isSet")
	}
}

func c17kinds(c *an.Ctx) {
	f := c.Fn("C17.kinds", "notNil")
	if f == nil {
		return
	}
	want := map[string]bool{"reflect.Chan": true, "reflect.Func": true, "reflect.Interface": true, "reflect.Map": true, "reflect.Ptr": true, "reflect.Slice": true}
	alt := map[string]string{"reflect.Pointer": "reflect.Ptr"}
	got := map[string]bool{}
	okShape, defaultTrue, invalidFalse := false, false, false
	an.InspectOwn(f, func(n ast.Node) bool {
		switch s := n.(type) {
		case *ast.IfStmt:
			if strings.ReplaceAll(an.Str(s.Cond), " ", "") == "!v.IsValid()" && len(s.Body.List) == 1 {
				if ret, ok := s.Body.List[0].(*ast.ReturnStmt); ok && an.Str(ret.Results[0]) == "false" {
					invalidFalse = true
				}
			}
		case *ast.SwitchStmt:
			if an.Str(s.Tag) != "v.Kind()" {
				return true
			}
			for _, cl := range s.Body.List {
				cc := cl.(*ast.CaseClause)
				ret, isRet := cc.Body[0].(*ast.ReturnStmt)
				if cc.List == nil {
					defaultTrue = isRet && an.Str(ret.Results[0]) == "true"
					continue
				}
				if isRet && strings.ReplaceAll(an.Str(ret.Results[0]), " ", "") == "!v.IsNil()" {
					okShape = true
					for _, e := range cc.List {
						k := an.Str(e)
						if a, ok := alt[k]; ok {
							k = a
						}
						got[k] = true
					}
				} else {
					for _, e := range cc.List {
						got["?"+an.Str(e)] = true
					}
				}
			}
		}
		return true
	})
	var missing, extra []string
	for k := range want {
		if !got[k] {
			missing = append(missing, k)
		}
	}
	for k := range got {
		if !want[k] && k != "reflect.UnsafePointer" {
			extra = append(extra, k)
		}
	}
	sort.Strings(missing)
	sort.Strings(extra)
	ok := okShape && defaultTrue && invalidFalse && len(missing) == 0 && len(extra) == 0
	if !ok {
		// written another way: decide it by running notNil's paths once for every reflect.Kind
		if why := c17kindsByEnumeration(c, f); why == "" {
			ok = true
		} else {
			extra = append(extra, "by enumeration: "+why)
		}
	}
	c.Check(ok, "C17.kinds", "notNil", f.Pos(), "notNil: invalid → false; IsNil consulted exactly for Chan, Func, Interface, Map, Ptr, Slice; everything else exists",
		fmt.Sprintf("notNil does not implement \"non-nil\" for exactly the nil-able kinds (missing %v, unexpected %v, invalid→false %v, default→true %v)", missing, extra, invalidFalse, defaultTrue))
}

// c17kindsByEnumeration explores notNil once per reflect.Kind (v.Kind() fixed to that kind, v.IsValid() to
// kind != Invalid) and compares what each path returns with the table: Invalid → false, the nil-able
// kinds → !v.IsNil(), every other kind → true.  It returns "" when the table is met.
func c17kindsByEnumeration(c *an.Ctx, f *an.Fn) string {
	p := c.P
	info := f.Info()
	var kindCall, validCall *ast.CallExpr
	var kindType *types.Named
	an.InspectOwn(f, func(n ast.Node) bool {
		if call, ok := n.(*ast.CallExpr); ok {
			switch an.CalleeName(info, call) {
			case "(reflect.Value).Kind":
				if kindCall == nil {
					kindCall = call
					kindType, _ = info.Types[call].Type.(*types.Named)
				}
			case "(reflect.Value).IsValid":
				if validCall == nil {
					validCall = call
				}
			}
		}
		return true
	})
	if kindCall == nil || kindType == nil {
		return "notNil does not look at v.Kind()"
	}
	nilable := map[string]bool{"Chan": true, "Func": true, "Interface": true, "Map": true, "Ptr": true, "Pointer": true, "Slice": true}
	sc := kindType.Obj().Pkg().Scope()
	var bad []string
	nKinds := 0
	for _, name := range sc.Names() {
		k, ok := sc.Lookup(name).(*types.Const)
		if !ok || !types.Identical(k.Type(), kindType) {
			continue
		}
		nKinds++
		x := p.NewExplorer(f, an.Hooks{})
		init := an.NewState()
		if !x.SetEq(kindCall, k.Val().ExactString(), init) {
			return "v.Kind() cannot be fixed for the exploration"
		}
		if validCall != nil {
			x.Assume(validCall, name != "Invalid", init)
		}
		x.Run(init)
		c.States += x.Visited
		if x.Undecided != "" {
			return x.Undecided
		}
		n := 0
		for _, ex := range x.Exits {
			if ex.Kind != an.ExitReturn || ex.Ret == nil || len(ex.Ret.Results) != 1 {
				bad = append(bad, name+": does not return")
				continue
			}
			n++
			res := an.Unparen(ex.Ret.Results[0])
			got := strings.ReplaceAll(an.Norm(f, res), " ", "")
			if tv, ok := info.Types[res]; ok && tv.Value != nil {
				got = tv.Value.ExactString()
			}
			want := "true"
			switch {
			case name == "Invalid":
				want = "false"
			case nilable[name]:
				want = "!$p0.IsNil()"
			case name == "UnsafePointer" && got == "!$p0.IsNil()":
				want = got
			}
			if got != want {
				bad = append(bad, fmt.Sprintf("%s → %s (expected %s)", name, got, want))
			}
		}
		if n == 0 {
			bad = append(bad, name+": no return reached")
		}
	}
	if nKinds < 20 {
		return "the kinds of package reflect could not be enumerated"
	}
	sort.Strings(bad)
	if len(bad) > 6 {
		bad = append(bad[:6], "…")
	}
	return strings.Join(bad, "; ")
}

func c17lookup(c *an.Ctx) {
	p := c.P
	for _, name := range []string{"(*Runtime).executeLetList", "(*Runtime).executeSetList"} {
		f := c.Fn("C17.lookup", name)
		if f == nil {
			continue
		}
		info := f.Info()
		// bindings under the lookup flag: record (target index, bound value) with the facts at that point
		type bind struct {
			target     int
			value      string
			node       ast.Node
			targetExpr string // when target < 0: resolved per state through the helper-parameter bindings
		}
		var binds []bind
		var nodes []ast.Node
		an.InspectOwn(f, func(n ast.Node) bool {
			switch s := n.(type) {
			case *ast.AssignStmt: // st.variables[set.Left[i].(*IdentifierNode).Ident] = X
				if len(s.Lhs) == 1 {
					if ix, ok := s.Lhs[0].(*ast.IndexExpr); ok && p.FieldKey(info, ix.X) == "scope.variables" {
						str := an.Str(ix.Index)
						found := false
						for i := 0; i < 2; i++ {
							if strings.Contains(str, fmt.Sprintf("set.Left[%d]", i)) {
								binds = append(binds, bind{i, an.Str(s.Rhs[0]), s, ""})
								nodes = append(nodes, s)
								found = true
							}
						}
						if !found && p.OwnerFn(s.Pos()) != f {
							// inside a helper the list was merged into: which target this is depends on the call site
							binds = append(binds, bind{-1, an.Str(s.Rhs[0]), s, str})
							nodes = append(nodes, s)
						}
					}
				}
			case *ast.CallExpr: // st.executeSet(set.Left[i], X)
				if an.CalleeName(info, s) == "(*jet.Runtime).executeSet" && len(s.Args) == 2 {
					found := false
					for i := 0; i < 2; i++ {
						if an.Str(s.Args[0]) == fmt.Sprintf("set.Left[%d]", i) {
							binds = append(binds, bind{i, an.Str(s.Args[1]), s, ""})
							nodes = append(nodes, s)
							found = true
						}
					}
					if !found && p.OwnerFn(s.Pos()) != f {
						binds = append(binds, bind{-1, an.Str(s.Args[1]), s, an.Str(s.Args[0])})
						nodes = append(nodes, s)
					}
				}
			}
			return true
		})
		// a local may carry the answer: track which of the two boolean values it holds
		boolConst := func(e ast.Expr) string {
			switch an.Str(an.Unparen(e)) {
			case "valueBoolTRUE":
				return "valueBoolTRUE"
			case "valueBoolFALSE":
				return "valueBoolFALSE"
			}
			return ""
		}
		pr := p.ProbeFn(f, nodes, an.Hooks{PreAssign: func(x *an.Explorer, lhs, rhs ast.Expr, stmt ast.Node, st *an.State) {
			if id, ok := an.Unparen(lhs).(*ast.Ident); ok && rhs != nil {
				st.Set("bv:"+id.Name, boolConst(rhs))
				// bindings of a helper's parameters: which target, which value
				st.Set("tgt:"+id.Name, "")
				for i := 0; i < 2; i++ {
					if strings.Contains(an.Str(rhs), fmt.Sprintf("set.Left[%d]", i)) {
						st.Set("tgt:"+id.Name, fmt.Sprint(i))
					}
				}
				st.Set("al:"+id.Name, "")
				if rid, ok := an.Unparen(rhs).(*ast.Ident); ok && rid.Name != id.Name {
					st.Set("al:"+id.Name, rid.Name)
					if t := st.Get("tgt:" + rid.Name); t != "" {
						st.Set("tgt:"+id.Name, t)
					}
					if bv := st.Get("bv:" + rid.Name); bv != "" {
						st.Set("bv:"+id.Name, bv)
					}
				}
			}
		}})
		identRe := regexp.MustCompile(`[A-Za-z_][A-Za-z_0-9]*`)
		c.States += pr.X.Visited
		okFirst, okTrue, okFalse := false, false, false
		bad := ""
		// role: the looked-up value is what the first target is bound to
		valueName := "value"
		for _, b := range binds {
			if b.target == 0 {
				valueName = b.value
			}
		}
		for _, b0 := range binds {
			for _, st := range pr.At[b0.node] {
				b := b0
				if b.target < 0 {
					for _, w := range identRe.FindAllString(b.targetExpr, -1) {
						if t := st.Get("tgt:" + w); t == "0" || t == "1" {
							b.target = int(t[0] - '0')
						}
					}
					if b.target < 0 {
						continue // a target of the plain multi-assignment form
					}
				}
				if carried := st.Get("bv:" + b.value); carried != "" {
					b.value = carried
				}
				for k := 0; k < 3; k++ { // the value handed down through helper parameters
					if a := st.Get("al:" + b.value); a != "" {
						b.value = a
					} else {
						break
					}
				}
				lookup := false
				for k, v := range st.Facts {
					if v && strings.HasSuffix(an.PlainKey(k), ".IndexExprGetLookup") {
						lookup = true
					}
				}
				if !lookup {
					continue
				}
				valid := an.FactIs(st, valueName+".IsValid()", true)
				invalid := an.FactIs(st, valueName+".IsValid()", false)
				switch {
				case b.target == 0 && b.value == valueName:
					okFirst = true
				case b.target == 0:
					bad = "the first target of the two-value lookup is bound to " + b.value + ", not to the looked-up value"
				case b.target == 1 && b.value == "valueBoolTRUE" && valid:
					okTrue = true
				case b.target == 1 && b.value == "valueBoolFALSE" && invalid:
					okFalse = true
				case b.target == 1:
					bad = "the second target of the two-value lookup is bound to " + b.value + " on a path where IsValid() of the looked-up value does not say so"
				}
			}
		}
		ok := okFirst && okTrue && okFalse && bad == ""
		c.Check(ok, "C17.lookup", name, f.Pos(), "v, ok form: v is the looked-up value and ok is IsValid() of it",
			firstNonEmpty(bad, name+" does not bind ok to true exactly when the looked-up value is valid and to false otherwise"))
	}
	// the parser selects the form only for 2 targets, 1 index-expression source
	if f := c.Fn("C17.lookup", "(*Template).assignmentOrExpression"); f != nil {
		finfo := f.Info()
		// roles from the constructor call newSet(pos, line, isLet, <flag>, <left>, <right>)
		var flagVar, leftVar, rightVar *ast.Ident
		for _, call := range p.CallsIn(f, "(*jet.Template).newSet") {
			if len(call.Args) == 6 {
				flagVar, _ = an.Unparen(call.Args[3]).(*ast.Ident)
				leftVar, _ = an.Unparen(call.Args[4]).(*ast.Ident)
				rightVar, _ = an.Unparen(call.Args[5]).(*ast.Ident)
			}
		}
		var store ast.Node
		if flagVar != nil {
			fo := an.ObjOf(finfo, flagVar)
			an.InspectOwn(f, func(n ast.Node) bool {
				if as, ok := n.(*ast.AssignStmt); ok && len(as.Lhs) == 1 && len(as.Rhs) == 1 && an.Str(as.Rhs[0]) == "true" {
					if id, ok := as.Lhs[0].(*ast.Ident); ok && an.ObjOf(finfo, id) == fo {
						store = as
					}
				}
				return true
			})
		}
		// names under which the length of a slice variable may be tested: len(v) or a local defined as len(v)
		lenNames := func(v *ast.Ident) []string {
			out := []string{"len(" + v.Name + ")"}
			vo := an.ObjOf(finfo, v)
			an.InspectOwn(f, func(n ast.Node) bool {
				as, ok := n.(*ast.AssignStmt)
				if !ok || len(as.Lhs) != len(as.Rhs) {
					return true
				}
				for i, r := range as.Rhs {
					if call, ok := an.Unparen(r).(*ast.CallExpr); ok && an.IsCallTo(finfo, call, "builtin.len") && len(call.Args) == 1 {
						if aid, ok := an.Unparen(call.Args[0]).(*ast.Ident); ok && an.ObjOf(finfo, aid) == vo {
							if lid, ok := as.Lhs[i].(*ast.Ident); ok {
								out = append(out, lid.Name)
							}
						}
					}
				}
				return true
			})
			return out
		}
		lenIs := func(st *an.State, names []string, n string) bool {
			for _, nm := range names {
				for k, v := range st.Facts {
					pk := an.PlainKey(k)
					if v && (pk == n+" == "+nm || pk == nm+" == "+n) {
						return true
					}
				}
				for k, v := range st.Regs {
					if an.PlainKey(k) == "eq:"+nm && v == n {
						return true
					}
				}
			}
			return false
		}
		ok := false
		_ = store
		// where the node is built, the flag is either known to be false or the three conditions are established
		// (whether the flag was set by `flag = true` under them or computed from them)
		var builds []ast.Node
		for _, call := range p.CallsIn(f, "(*jet.Template).newSet") {
			builds = append(builds, call)
		}
		if flagVar != nil && leftVar != nil && rightVar != nil && len(builds) > 0 {
			lnames, rnames := lenNames(leftVar), lenNames(rightVar)
			pr := p.ProbeFn(f, builds, an.Hooks{})
			c.States += pr.X.Visited
			ok = true
			nTrue := 0
			var sts []*an.State
			for _, b := range builds {
				sts = append(sts, pr.At[b]...)
			}
			if len(sts) == 0 {
				ok = false
			}
			for _, st := range sts {
				if t, known := pr.X.Truth(flagVar, st); known && !t {
					continue
				}
				nTrue++
				idx := false
				for k, v := range st.Facts {
					pk := an.PlainKey(k)
					if v && strings.Contains(pk, "NodeIndexExpr == ") && strings.Contains(pk, rightVar.Name+"[0].Type()") {
						idx = true
					}
				}
				if !(lenIs(st, lnames, "2") && lenIs(st, rnames, "1") && idx) {
					ok = false
				}
			}
			if nTrue == 0 {
				ok = false // the flag is never set: the two-value form is not recognised at all
			}
		}
		c.Check(ok, "C17.lookup", "(*Template).assignmentOrExpression/form", f.Pos(), "the two-value lookup is selected only for two targets and one index-expression source",
			"the parser marks an assignment as a two-value map lookup without having established 2 targets, 1 source of kind index expression")
	}
}

// c17stmtCannotPanic: an assignment or declaration whose right-hand sides only copy locals, parameters and
// fields of the receiver (no call that can panic, no index, no dereference of anything else, no assertion).
func c17stmtCannotPanic(p *an.Prog, f *an.Fn, s ast.Stmt) bool {
	info := f.Info()
	var rhs []ast.Expr
	switch s := s.(type) {
	case *ast.AssignStmt:
		for _, l := range s.Lhs {
			if _, isId := l.(*ast.Ident); !isId {
				return false
			}
		}
		rhs = s.Rhs
	case *ast.DeclStmt:
		gd, ok := s.Decl.(*ast.GenDecl)
		if !ok {
			return false
		}
		for _, sp := range gd.Specs {
			if vs, isVS := sp.(*ast.ValueSpec); isVS {
				rhs = append(rhs, vs.Values...)
			}
		}
	case *ast.EmptyStmt:
		return true
	default:
		return false
	}
	var recv types.Object
	if f.Decl != nil && f.Decl.Recv != nil && len(f.Decl.Recv.List) == 1 && len(f.Decl.Recv.List[0].Names) == 1 {
		recv = an.ObjOf(info, f.Decl.Recv.List[0].Names[0])
	}
	ok := true
	var visit func(n ast.Node) bool
	for _, e := range rhs {
		visit = func(n ast.Node) bool {
			if !ok {
				return false
			}
			switch n := n.(type) {
			case *ast.CompositeLit:
				// the values a literal is built from, not its type expression
				for _, el := range n.Elts {
					if kv, isKV := el.(*ast.KeyValueExpr); isKV {
						ast.Inspect(kv.Value, visit)
					} else {
						ast.Inspect(el, visit)
					}
				}
				return false
			case *ast.CallExpr:
				if !c11cannotPanic(p, f, n, 0) {
					ok = false
				}
			case *ast.IndexExpr, *ast.SliceExpr, *ast.StarExpr, *ast.TypeAssertExpr, *ast.FuncLit:
				ok = false
			case *ast.BinaryExpr:
				if n.Op == token.QUO || n.Op == token.REM || n.Op == token.SHL || n.Op == token.SHR {
					ok = false
				}
			case *ast.SelectorExpr:
				if sel := info.Selections[n]; sel != nil {
					// a field of the receiver (the method is running: the receiver is not nil) or of a struct value
					id, isId := an.Unparen(n.X).(*ast.Ident)
					if _, isPtr := info.TypeOf(n.X).Underlying().(*types.Pointer); isPtr && !(isId && recv != nil && an.ObjOf(info, id) == recv) {
						ok = false
					}
					if sel.Indirect() && !(isId && recv != nil && an.ObjOf(info, id) == recv) {
						ok = false
					}
				}
			}
			return ok
		}
		ast.Inspect(e, visit)
	}
	return ok
}

// c17plainWalk: `for i := 0; i < len(L); i++` → (object of i, L); nil otherwise.
func c17plainWalk(info *types.Info, s *ast.ForStmt) (types.Object, ast.Expr) {
	init, ok := s.Init.(*ast.AssignStmt)
	if !ok || len(init.Lhs) != 1 || len(init.Rhs) != 1 || an.Str(init.Rhs[0]) != "0" {
		return nil, nil
	}
	id, ok := init.Lhs[0].(*ast.Ident)
	if !ok {
		return nil, nil
	}
	iv := an.ObjOf(info, id)
	cond, ok := an.Unparen(s.Cond).(*ast.BinaryExpr)
	if !ok || s.Cond == nil || cond.Op != token.LSS {
		return nil, nil
	}
	if cid, ok := an.Unparen(cond.X).(*ast.Ident); !ok || an.ObjOf(info, cid) != iv {
		return nil, nil
	}
	call, ok := an.Unparen(cond.Y).(*ast.CallExpr)
	if !ok || an.CalleeName(info, call) != "builtin.len" || len(call.Args) != 1 {
		return nil, nil
	}
	post, ok := s.Post.(*ast.IncDecStmt)
	if !ok || post.Tok != token.INC {
		return nil, nil
	}
	if pid, ok := an.Unparen(post.X).(*ast.Ident); !ok || an.ObjOf(info, pid) != iv {
		return nil, nil
	}
	return iv, call.Args[0]
}

// c17answerWithFacts: the answer's conjuncts and the facts of the path together contain `<error> == nil` and notNil(…).
func c17answerWithFacts(info *types.Info, e ast.Expr, st *an.State) bool {
	hasErr, hasNotNil := false, false
	for _, cj := range conjuncts(e) {
		s := strings.ReplaceAll(an.Str(cj), " ", "")
		if s == "err==nil" || s == "nil==err" {
			hasErr = true
		}
		if call, ok := an.Unparen(cj).(*ast.CallExpr); ok && an.CalleeName(info, call) == "jet.notNil" {
			hasNotNil = true
		}
	}
	for k, v := range st.Facts {
		pk := an.PlainKey(k)
		if v && (pk == "err == nil" || pk == "nil == err") {
			hasErr = true
		}
		if !v && (pk == "err != nil" || pk == "nil != err") {
			hasErr = true
		}
		if v && strings.HasPrefix(pk, "notNil(") {
			hasNotNil = true
		}
	}
	return hasErr && hasNotNil
}
