package rules

import (
	"fmt"
	"go/ast"
	"go/token"
	"go/types"
	"strings"

	"jetverif/an"
)

func init() {
	register(&Property{
		ID:  "C18",
		Run: runC18,
		Meta: an.Meta{
			Technique: "call-graph identity between each Go-side API method and the interpreter primitive for the syntax it mirrors, call counting and pairing on YieldBlock's CFG, nil-map store guards, and the argument-position rules shared with C14",
			Explanation: "(C18.shared) each Runtime method is implemented by the primitive the interpreter itself uses: Set → setValue (also the target of `=` on identifiers), Resolve/MustResolve → resolve (also identifier " +
				"evaluation and isset), Context returns the context field, Let stores into the innermost scope's variables map (the map `:=` stores into), SetOrLet chooses between them and must not drop " +
				"Set's error. (C18.once) YieldBlock executes the block's list exactly once on every normal path, brackets it with a context save/restore when a context is given, and reaches an error " +
				"panic for an unknown block. (C18.top) LetGlobal walks to the outermost scope of the chain; Let/LetGlobal must not store into a nil map (the bottom scope's map is the " +
				"caller's VarMap, which may be nil). (C18.args) ParseInto iterates 0 ≤ i < NumOfArguments() through Get(i) and fails when fewer pointers than arguments are supplied; " +
				"RequireNumOfArguments compares NumOfArguments() with both bounds; Get/IsSet/NumOfArguments agree with evaluateArgs on positions (C14.shift, C14.slot, re-checked here). (C18.top, continued) LetGlobal's store happens where the scope's parent is known to be nil, on every path. (C18.once, continued) YieldBlock runs the block without the given context only where that context is nil. (C18.args per-argument) see C14.count: ParseInto carries nothing from one argument position to the next. (C18.once content-inherited) on the paths of executeYieldBlock on which no content part was given, Runtime.content is left as Runtime.YieldBlock leaves it (only the restore of the entry value, or a store YieldBlock makes as well).",
			NotDecided:  "equivalence of rendered output between API and syntax for all call histories; ParseInto's per-type conversions.",
			Assumptions: []string{"custom functions call the API from the goroutine executing the template"},
			Trusted:     commonTrusted,
		},
		Mutants: []Mutant{
			{Name: "LetGlobal stops below a bottom scope without variables (original defect)", File: "eval.go", Old: "\t// walk up to the top-most scope\n\tfor sc.parent != nil {", New: "\t// walk up to the top-most scope\n\tfor sc.parent != nil && sc.parent.variables != nil {", Rule: "C18.top"},
			{Name: "LetGlobal rebinds a shadowing local instead (agent seed C18/2)", File: "eval.go", Old: "func (state *Runtime) LetGlobal(name string, val interface{}) {\n", New: "func (state *Runtime) LetGlobal(name string, val interface{}) {\n\tif state.setValue(name, reflect.ValueOf(val)) == nil {\n\t\treturn\n\t}\n", Rule: "C18.top"},
			{Name: "SetOrLet drops Set's error again (original defect)", File: "eval.go", Old: "\tif err := state.Set(name, val); err != nil {\n\t\tstate.Let(name, val)\n\t}", New: "\t_, err := state.resolve(name)\n\tif err != nil {\n\t\tstate.Let(name, val)\n\t} else {\n\t\tstate.Set(name, val)\n\t}", Rule: "C18.shared"},
			{Name: "Let stores into a nil map (original defect)", File: "eval.go", Old: "\tif state.scope.variables == nil {\n\t\t// the bottom scope holds the VarMap passed to Execute, which may be nil\n\t\tstate.scope.variables = make(VarMap)\n\t}\n\tstate.scope.variables[name] = reflect.ValueOf(val)", New: "\tstate.scope.variables[name] = reflect.ValueOf(val)", Rule: "C18.top"},
			{Name: "Set writes the innermost scope instead of rebinding", File: "eval.go", Old: "func (state *Runtime) Set(name string, val interface{}) error {\n\treturn state.setValue(name, reflect.ValueOf(val))\n}", New: "func (state *Runtime) Set(name string, val interface{}) error {\n\tstate.scope.variables[name] = reflect.ValueOf(val)\n\treturn nil\n}", Rule: "C18.shared"},
			{Name: "YieldBlock renders twice with a context (original defect)", File: "eval.go", Old: "\t\tst.executeList(block.List)\n\t\tst.context = current\n\t\treturn\n\t}", New: "\t\tst.executeList(block.List)\n\t\tst.context = current\n\t}", Rule: "C18.once"},
			{Name: "YieldBlock looks only at the innermost scope's block table (agent seed C18/3)", File: "eval.go", Old: "\tblock, has := st.getBlock(name)\n\n\tif has == false {\n\t\tpanic(fmt.Errorf(\"Block %q was not found!!\", name))", New: "\tblock, has := st.blocks[name]\n\n\tif has == false {\n\t\tpanic(fmt.Errorf(\"Block %q was not found!!\", name))", Rule: "C18.once"},
			{Name: "YieldBlock does not restore the context", File: "eval.go", Old: "\t\tst.executeList(block.List)\n\t\tst.context = current\n\t\treturn\n", New: "\t\tst.executeList(block.List)\n\t\t_ = current\n\t\treturn\n", Rule: "C18.once"},
			{Name: "YieldBlock ignores an unknown block", File: "eval.go", Old: "\tif has == false {\n\t\tpanic(fmt.Errorf(\"Block %q was not found!!\", name))\n\t}\n", New: "\tif has == false {\n\t\treturn\n\t}\n", Rule: "C18.once"},
			{Name: "Resolve bypasses the shared lookup", File: "eval.go", Old: "func (state *Runtime) Resolve(name string) reflect.Value {\n\tv, _ := state.resolve(name)\n\treturn v\n}", New: "func (state *Runtime) Resolve(name string) reflect.Value {\n\treturn state.scope.variables[name]\n}", Rule: "C18.shared"},
			{Name: "Context returns a stale copy", File: "eval.go", Old: "func (r *Runtime) Context() reflect.Value {\n\treturn r.context\n}", New: "func (r *Runtime) Context() reflect.Value {\n\treturn reflect.ValueOf(r.context.Interface())\n}", Rule: "C18.shared"},
			{Name: "ParseInto stops one argument early", File: "func.go", Old: "\tfor i := 0; i < a.NumOfArguments(); i++ {\n\t\targ, ptr := indirectEface(a.Get(i)), ptrs[i]", New: "\tfor i := 0; i < a.NumOfArguments()-1; i++ {\n\t\targ, ptr := indirectEface(a.Get(i)), ptrs[i]", Rule: "C18.args"},
			{Name: "a maximum of 0 is treated as no maximum (agent seed C14/5)", File: "func.go", Old: "} else if max >= 0 && num > max {", New: "} else if max > 0 && num > max {", Rule: "C18.args"},
			{Name: "RequireNumOfArguments ignores the upper bound", File: "func.go", Old: "\t} else if max >= 0 && num > max {\n\t\ta.Panicf(\"unexpected number of arguments in a call to %s\", funcname)\n\t}", New: "\t}", Rule: "C18.args"},
			{Name: "Let declares in the outermost scope", File: "eval.go", Old: "func (state *Runtime) Let(name string, val interface{}) {\n", New: "func (state *Runtime) Let(name string, val interface{}) {\n\tstate.LetGlobal(name, val)\n\treturn\n", Rule: "C18.shared"},
			{Name: "LetGlobal stops at the first parent", File: "eval.go", Old: "\tfor sc.parent != nil {\n\t\tsc = sc.parent\n\t}", New: "\tif sc.parent != nil {\n\t\tsc = sc.parent\n\t}", Rule: "C18.top"},
		},
	})
}

func runC18(c *an.Ctx) {
	c08paramScope(c, "C18.once")
	parseIntoPerArgument(c, "C18.args")
	c18contentAgrees(c)
	p := c.P
	info := p.Jet.TypesInfo
	callsOwn := func(f *an.Fn, callee string) bool { return len(p.CallsIn(f, callee)) > 0 }

	// ---------------------------------------------------------------- C18.shared
	if f := c.Fn("C18.shared", "(*Runtime).Set"); f != nil {
		ok := false
		for _, call := range p.CallsIn(f, "(*jet.Runtime).setValue") {
			if an.Norm(f, call.Args[0]) == "$p0" && an.Norm(f, call.Args[1]) == "reflect.ValueOf($p1)" {
				ok = true
			}
		}
		// and nothing else stores variables
		stores := false
		an.InspectOwn(f, func(n ast.Node) bool {
			an.Assigns(n, func(lhs, _ ast.Expr, _ token.Token) {
				if ix, isIx := an.Unparen(lhs).(*ast.IndexExpr); isIx && p.FieldKey(info, ix.X) == "scope.variables" {
					stores = true
				}
			})
			return true
		})
		c.Check(ok && !stores, "C18.shared", "(*Runtime).Set", f.Pos(), "Set is setValue(name, ValueOf(val)), the primitive behind `=`", "Runtime.Set does not delegate to setValue (the primitive `=` uses): it would not rebind the declaring scope / not fail for undeclared names")
	}
	if f := c.Fn("C18.shared", "(*Runtime).executeSet"); f != nil {
		c.Check(callsOwn(f, "(*jet.Runtime).setValue"), "C18.shared", "(*Runtime).executeSet", f.Pos(), "`=` on an identifier is setValue", "`=` on identifiers no longer goes through setValue: API and syntax diverge")
	}
	for _, name := range []string{"(*Runtime).Resolve", "(*Runtime).MustResolve"} {
		if f := c.Fn("C18.shared", name); f != nil {
			ok := false
			for _, call := range p.CallsIn(f, "(*jet.Runtime).resolve") {
				if an.Norm(f, call.Args[0]) == "$p0" {
					ok = true
				}
			}
			// the value returned is resolve's first result
			if ok {
				ok = false
				an.InspectOwn(f, func(n ast.Node) bool {
					if ret, isRet := n.(*ast.ReturnStmt); isRet && len(ret.Results) == 1 {
						if id, isId := an.Unparen(ret.Results[0]).(*ast.Ident); isId {
							for _, md := range an.LocalMultiDefs(f, an.ObjOf(info, id)) {
								if md.Index == 0 && an.CalleeName(info, md.Call) == "(*jet.Runtime).resolve" {
									ok = true
								}
							}
						}
					}
					return true
				})
			}
			c.Check(ok, "C18.shared", name, f.Pos(), name+" returns what the shared identifier lookup returns", name+" does not return the result of Runtime.resolve (the lookup used for identifiers in templates)")
		}
	}
	if f := c.Fn("C18.shared", "(*Runtime).MustResolve"); f != nil {
		// error → panic(err)
		pr := p.ProbeFn(f, nil, an.Hooks{})
		_ = pr
		ok := len(p.CallsIn(f, "builtin.panic")) == 1
		c.Check(ok, "C18.shared", "(*Runtime).MustResolve/panics", f.Pos(), "MustResolve panics with the lookup error", "MustResolve does not panic on a failed lookup")
	}
	for _, user := range []string{"(*Runtime).evalBaseExpressionGroup", "(*Runtime).isSet"} {
		if f := c.Fn("C18.shared", user); f != nil {
			c.Check(callsOwn(f, "(*jet.Runtime).resolve"), "C18.shared", user+"/resolve", f.Pos(), "identifiers in templates are looked up by Runtime.resolve", user+" no longer uses Runtime.resolve: Resolve() and template identifiers may disagree")
		}
	}
	if f := c.Fn("C18.shared", "(*Runtime).Context"); f != nil {
		ok := len(f.Body.List) == 1
		if ok {
			ret, isRet := f.Body.List[0].(*ast.ReturnStmt)
			ok = isRet && len(ret.Results) == 1 && p.FieldKey(info, ret.Results[0]) == "Runtime.context" && an.Norm(f, ret.Results[0]) == "$r.context"
		}
		c.Check(ok, "C18.shared", "(*Runtime).Context", f.Pos(), "Context returns the runtime's context field", "Runtime.Context does not simply return the context field ('.')")
	}
	if f := c.Fn("C18.shared", "(*Runtime).Let"); f != nil {
		ok := false
		an.InspectOwn(f, func(n ast.Node) bool {
			an.Assigns(n, func(lhs, rhs ast.Expr, _ token.Token) {
				if ix, isIx := an.Unparen(lhs).(*ast.IndexExpr); isIx && rhs != nil {
					nx := an.Norm(f, ix.X)
					if (nx == "$r.scope.variables" || nx == "$r.variables") && an.Norm(f, ix.Index) == "$p0" && an.Norm(f, rhs) == "reflect.ValueOf($p1)" {
						ok = true
					}
				}
			})
			return true
		})
		// the store happens on every path through Let, and Let does not delegate elsewhere
		lx := p.NewExplorer(f, an.Hooks{PreAssign: func(x *an.Explorer, lhs, rhs ast.Expr, stmt ast.Node, st *an.State) {
			if ix, isIx := an.Unparen(lhs).(*ast.IndexExpr); isIx && p.FieldKey(info, ix.X) == "scope.variables" {
				st.Set("stored", "1")
			}
		}})
		lx.Run(nil)
		c.States += lx.Visited
		topLevel := len(lx.Exits) > 0 && lx.Undecided == ""
		for _, ex := range lx.Exits {
			if ex.Kind == an.ExitReturn && ex.State.Get("stored") == "" {
				topLevel = false
			}
		}
		delegates := len(p.CallsIn(f, "(*jet.Runtime).LetGlobal", "(*jet.Runtime).setValue", "(*jet.Runtime).Set")) > 0
		c.Check(ok && topLevel && !delegates, "C18.shared", "(*Runtime).Let", f.Pos(), "Let stores into the innermost scope's variables, as := does", "Runtime.Let does not store ValueOf(val) under name into the innermost scope's variables map (what := does)")
	}
	if f := c.Fn("C18.shared", "(*Runtime).executeLetList"); f != nil {
		n := 0
		an.InspectOwn(f, func(nd ast.Node) bool {
			an.Assigns(nd, func(lhs, _ ast.Expr, _ token.Token) {
				if ix, isIx := an.Unparen(lhs).(*ast.IndexExpr); isIx && p.FieldKey(info, ix.X) == "scope.variables" && throughRuntime(p, info, ix.X) {
					n++
				}
			})
			return true
		})
		// decided on the paths (helpers the list was merged into are spliced in; a constant flag selects their
		// branch): := stores into the current scope's variables and never goes through the rebinding of `=`
		visits, rebinds := 0, false
		lx := p.NewExplorer(f, an.Hooks{
			PreAssign: func(x *an.Explorer, lhs, rhs ast.Expr, stmt ast.Node, st *an.State) {
				if ix, isIx := an.Unparen(lhs).(*ast.IndexExpr); isIx && p.FieldKey(info, ix.X) == "scope.variables" && throughRuntime(p, info, ix.X) {
					visits++
				}
			},
			Call: func(x *an.Explorer, call *ast.CallExpr, st *an.State) {
				switch an.CalleeName(info, call) {
				case "(*jet.Runtime).executeSet", "(*jet.Runtime).setValue":
					rebinds = true
				}
			},
		})
		lx.Run(nil)
		c.States += lx.Visited
		c.Check(n >= 1 && visits >= 1 && !rebinds && lx.Undecided == "", "C18.shared", "(*Runtime).executeLetList", f.Pos(), ":= stores into the innermost scope's variables", ":= no longer stores into the current scope's variables map (or can reach the rebinding of `=`)")
	}
	// SetOrLet: error of Set must not be dropped
	if f := c.Fn("C18.shared", "(*Runtime).SetOrLet"); f != nil {
		bad, _ := p.DroppedErrors(f, func(name string, _ *ast.CallExpr) bool { return name == "(*jet.Runtime).Set" })
		if len(bad) > 0 {
			c.Bad("C18.shared", "(*Runtime).SetOrLet/drops-error", bad[0].Pos, nil, "SetOrLet drops the error of Set: when the name only resolves to a global or built-in, Set fails and the call is a silent no-op")
		} else {
			c.OK("C18.shared", "(*Runtime).SetOrLet/drops-error", f.Pos(), "the error of Set is not dropped")
		}
		c.Check(callsOwn(f, "(*jet.Runtime).Set") && callsOwn(f, "(*jet.Runtime).Let"), "C18.shared", "(*Runtime).SetOrLet/choice", f.Pos(), "SetOrLet chooses between Set and Let", "SetOrLet does not choose between Set and Let")
	}

	// ---------------------------------------------------------------- C18.once
	if f := c.Fn("C18.once", "(*Runtime).YieldBlock"); f != nil {
		finfo := f.Info()
		// the context parameter (interface{}): the block runs without it only where it is nil — any other test
		// (a nil pointer or nil slice inside the interface is a context like any other for {{yield b() ctx}})
		ctxParam := ""
		if f.Sig != nil && f.Sig.Params().Len() == 2 {
			ctxParam = an.RoleOf(f.Sig.Params().At(1))
		}
		notGiven := token.NoPos
		x := p.NewExplorer(f, an.Hooks{PreAssign: func(x *an.Explorer, lhs, rhs ast.Expr, stmt ast.Node, st *an.State) {
			if p.FieldKey(finfo, lhs) == "Runtime.context" {
				st.Set("ctxset", "1")
			}
		}, Call: func(x *an.Explorer, call *ast.CallExpr, st *an.State) {
			if an.IsCallTo(finfo, call, execList) && st.Get("ctxset") == "" && ctxParam != "" && !an.FactIs(st, ctxParam+" == nil", true) && !notGiven.IsValid() {
				notGiven = call.Pos()
			}
			if an.IsCallTo(finfo, call, execList) && st.Int("ran") < 3 {
				st.Add("ran", 1)
				if !strings.HasSuffix(an.Str(call.Args[0]), ".List") {
					st.Set("other", an.Str(call.Args[0]))
				}
			}
		}})
		x.Run(nil)
		c.States += x.Visited
		ok, why := true, ""
		nRet := 0
		var trail []string
		for _, ex := range x.Exits {
			if ex.Kind != an.ExitReturn {
				continue
			}
			nRet++
			switch {
			case an.FactIs(ex.State, "has", false):
				ok, why, trail = false, "YieldBlock returns normally although the block was not found (an unknown block must be an error)", ex.Trail
			case ex.State.Int("ran") != 1:
				ok, why, trail = false, fmt.Sprintf("a normal path through YieldBlock executes the block %d times (must be exactly once)", ex.State.Int("ran")), ex.Trail
			case ex.State.Get("other") != "":
				ok, why = false, "YieldBlock executes "+ex.State.Get("other")+" instead of the block's list"
			}
		}
		if nRet == 0 {
			ok, why = false, "YieldBlock never returns"
		}
		c.Check(!notGiven.IsValid(), "C18.once", "(*Runtime).YieldBlock/context-given", f.Pos(), "the block runs without the given context only where that context is nil",
			"YieldBlock can execute the block without installing the context it was given although that context is not known to be nil: a nil pointer, slice or map passed as context is a context ({{yield b() ctx}} switches '.' for it), so the block renders against the caller's '.'")
		if ok {
			c.OK("C18.once", "(*Runtime).YieldBlock/once", f.Pos(), "the block is executed exactly once on each of the %d normal exits; an unknown block panics", nRet)
		} else {
			c.Bad("C18.once", "(*Runtime).YieldBlock/once", f.Pos(), trail, "%s", why)
		}
		// the panic value is an error
		for _, call := range p.CallsIn(f, "builtin.panic") {
			tv := finfo.Types[call.Args[0]]
			c.Check(types.Implements(tv.Type, errorIface()), "C18.once", "(*Runtime).YieldBlock/panic-value", call.Pos(), "the unknown-block panic carries an error", "YieldBlock panics with a non-error value: Runtime.recover re-panics it out of Execute")
		}
		// "like {{yield name() ctx}}": the block is found the way the yield statement finds it — through
		// getBlock(name), which walks the scope chain — not by indexing one scope's table
		okLookup, direct := false, token.NoPos
		for _, call := range p.CallsIn(f, "(*jet.scope).getBlock") {
			if len(call.Args) == 1 && an.Norm(f, call.Args[0]) == "$p0" {
				okLookup = true
			}
		}
		an.InspectOwn(f, func(n ast.Node) bool {
			if ix, ok := n.(*ast.IndexExpr); ok && p.FieldKey(finfo, an.Unparen(ix.X)) == "scope.blocks" {
				direct = ix.Pos()
			}
			return true
		})
		c.Check(okLookup && !direct.IsValid(), "C18.once", "(*Runtime).YieldBlock/lookup", f.Pos(), "the block is resolved by getBlock(name), as the yield statement does",
			"YieldBlock does not resolve its block through getBlock(name) (it indexes a single scope's block table): inside an included template or a parametrised block the blocks of the enclosing scopes are not found, although {{yield name()}} at the same place renders them")
		// context bracket
		r := explorePairs(p, f)
		c.States += r.x.Visited
		reportFields(c, "C18.once", r, map[string]bool{"Runtime.context": true})
		if !r.fieldSeen["Runtime.context"] {
			c.Bad("C18.once", "(*Runtime).YieldBlock/field:context", f.Pos(), nil, "YieldBlock never installs the context it was given")
		}
	}

	// ---------------------------------------------------------------- C18.top
	for _, name := range []string{"(*Runtime).Let", "(*Runtime).LetGlobal"} {
		f := p.Fn(name)
		if f == nil {
			continue
		}
		finfo := f.Info()
		var stores []ast.Node
		an.InspectOwn(f, func(n ast.Node) bool {
			if as, ok := n.(*ast.AssignStmt); ok && len(as.Lhs) == 1 {
				if ix, isIx := an.Unparen(as.Lhs[0]).(*ast.IndexExpr); isIx && p.FieldKey(finfo, ix.X) == "scope.variables" {
					stores = append(stores, as)
				}
			}
			return true
		})
		pr := p.ProbeFn(f, stores, an.Hooks{})
		c.States += pr.X.Visited
		var nilIdent *ast.Ident
		an.InspectOwn(f, func(n ast.Node) bool {
			if id, ok := n.(*ast.Ident); ok && nilIdent == nil {
				if _, isNil := finfo.Uses[id].(*types.Nil); isNil {
					nilIdent = id
				}
			}
			return nilIdent == nil
		})
		for _, s := range stores {
			ix := an.Unparen(s.(*ast.AssignStmt).Lhs[0]).(*ast.IndexExpr)
			m := an.Str(ix.X)
			ok := len(pr.At[s]) > 0
			for _, st := range pr.At[s] {
				nonNil := false
				for k, v := range st.Facts {
					pk := an.PlainKey(k)
					if !v && (pk == m+" == nil" || pk == "nil == "+m) {
						nonNil = true
					}
				}
				if !nonNil && nilIdent != nil {
					// (the map may be named through a helper's receiver: let the explorer render it)
					if v, known := pr.X.Truth(&ast.BinaryExpr{X: ix.X, Op: token.EQL, Y: nilIdent}, st); known && !v {
						nonNil = true
					}
				}
				if !nonNil {
					ok = false
				}
			}
			if ok {
				c.OK("C18.top", name+"/nil-map", s.Pos(), "the store is reached only with a non-nil variables map")
			} else {
				c.Bad("C18.top", name+"/nil-map", s.Pos(), nil,
					"%s stores into %s without having established that the map is non-nil: at template top level after Execute(w, nil, data) the bottom scope's map is the caller's nil VarMap and the store panics with a runtime error (re-panicked out of Execute)", name, m)
			}
		}
	}
	if f := c.Fn("C18.top", "(*Runtime).LetGlobal"); f != nil {
		// decided on the paths: the name is stored into a scope that is known to have no parent (the
		// outermost one), whatever map that scope holds — stopping below a bottom scope without variables
		// (Execute was given a nil VarMap) would bind the "global" in a scope that ends with the current body
		winfo := f.Info()
		ok, nStore := true, 0
		wx := p.NewExplorer(f, an.Hooks{PreAssign: func(x *an.Explorer, lhs, rhs ast.Expr, stmt ast.Node, st *an.State) {
			ix, isIx := an.Unparen(lhs).(*ast.IndexExpr)
			if !isIx || p.FieldKey(winfo, ix.X) != "scope.variables" {
				return
			}
			nStore++
			cursor := an.Str(ix.X.(*ast.SelectorExpr).X)
			if !an.FactIs(st, cursor+".parent == nil", true) {
				ok = false
			}
		}})
		wx.Run(nil)
		c.States += wx.Visited
		if nStore == 0 || wx.Undecided != "" {
			ok = false
		}
		c.Check(ok, "C18.top", "(*Runtime).LetGlobal/walk", f.Pos(), "LetGlobal stores into the scope that has no parent", "LetGlobal stores the name into a scope that is not known to be the outermost one (its parent is not known to be nil where the store happens): with a nil VarMap the global is bound in a scope that ends with the current body")
		// every normal exit has stored into the scope the walk ended at, and LetGlobal binds nowhere else
		finfo := f.Info()
		delegates := p.CallsIn(f, "(*jet.Runtime).setValue", "(*jet.Runtime).Set", "(*jet.Runtime).Let", "(*jet.Runtime).SetOrLet")
		x := p.NewExplorer(f, an.Hooks{PreAssign: func(x *an.Explorer, lhs, rhs ast.Expr, stmt ast.Node, st *an.State) {
			if ix, isIx := an.Unparen(lhs).(*ast.IndexExpr); isIx && p.FieldKey(finfo, ix.X) == "scope.variables" {
				st.Set("stored", "1")
			}
			if rhs != nil && p.FieldKey(finfo, rhs) == "scope.parent" {
				st.Set("stored", "") // a store before the walk finished does not count
			}
		}})
		x.Run(nil)
		c.States += x.Visited
		allStore := true
		for _, ex := range x.Exits {
			if ex.Kind == an.ExitReturn && ex.State.Get("stored") == "" {
				allStore = false
			}
		}
		c.Check(allStore && len(delegates) == 0, "C18.top", "(*Runtime).LetGlobal/binds-outermost", f.Pos(), "every path through LetGlobal binds the name in the scope the walk ended at, and nowhere else",
			"LetGlobal can return without binding the name in the outermost scope (or rebinds an inner variable through setValue/Set/Let instead): a shadowing local is overwritten and nothing is bound at the top")
	}

	// ---------------------------------------------------------------- C18.args
	if f := c.Fn("C18.args", "(*Arguments).ParseInto"); f != nil {
		ok, why := false, "no loop over the arguments"
		an.InspectOwn(f, func(n ast.Node) bool {
			fs, isFor := n.(*ast.ForStmt)
			if !isFor {
				return true
			}
			// for v := 0; v < <recv>.NumOfArguments(); v++  (the bound may be held in a local)
			v, bound, isCounting := countingLoop(f, fs)
			if !isCounting || bound != "$r.NumOfArguments()" {
				why = "ParseInto's loop is `for " + strings.ReplaceAll(an.StmtStr(fs.Init)+";"+an.Str(fs.Cond)+";"+an.StmtStr(fs.Post), " ", "") + "`, not over every index 0 ≤ i < NumOfArguments()"
				return true
			}
			uses := false
			ast.Inspect(fs.Body, func(m ast.Node) bool {
				if call, isCall := m.(*ast.CallExpr); isCall && an.CalleeName(f.Info(), call) == "(*jet.Arguments).Get" {
					if id, isId := an.Unparen(call.Args[0]).(*ast.Ident); isId && an.ObjOf(f.Info(), id) == v {
						uses = true
					}
				}
				return true
			})
			if uses {
				ok = true
			} else {
				why = "ParseInto does not read argument i through Get(i)"
			}
			return true
		})
		// fewer pointers than arguments → error before the loop
		short := false
		if len(f.Body.List) > 0 {
			for _, st := range f.Body.List {
				is, isIf := st.(*ast.IfStmt)
				if !isIf {
					if _, isFor := st.(*ast.ForStmt); isFor {
						break
					}
					continue
				}
				if b, isBin := an.Unparen(is.Cond).(*ast.BinaryExpr); isBin && b.Op == token.LSS && an.Norm(f, b.X) == "len($p0)" && an.Norm(f, b.Y) == "$r.NumOfArguments()" {
					if ret, isRet := is.Body.List[len(is.Body.List)-1].(*ast.ReturnStmt); isRet && an.Str(ret.Results[0]) != "nil" {
						short = true
					}
				}
			}
		}
		if ok && !short {
			ok, why = false, "ParseInto does not fail first when fewer pointers than arguments are supplied (it would index past the pointer list)"
		}
		c.Check(ok, "C18.args", "(*Arguments).ParseInto", f.Pos(), "ParseInto visits every argument position through Get and rejects too few pointers", why)
	}
	requireNumRule(c, "C18.args")
	// the accessors agree with evaluateArgs (same rules as C14.shift)
	const canon = "!HasPipeSlot && piped!=nil"
	for _, name := range shiftFns {
		f := p.Fn(name)
		if f == nil {
			c.Anchor("C18.args", "func "+name)
			continue
		}
		found, okAll := 0, true
		an.InspectOwn(f, func(n ast.Node) bool {
			if is, ok := n.(*ast.IfStmt); ok {
				if pred, mentions := shiftPredicate(p, f, is.Cond); mentions {
					found++
					if pred != canon {
						okAll = false
					}
				}
			}
			return true
		})
		c.Check(found > 0 && okAll, "C18.args", name+"/positions", f.Pos(), "argument positions follow the shared implicit-first-argument predicate", name+" presents piped/slot values at other positions than a reflected function receives them (predicate differs from piped != nil && !HasPipeSlot)")
	}
}

func errorIface() *types.Interface {
	return types.Universe.Lookup("error").Type().Underlying().(*types.Interface)
}

// countingLoop recognises `for v := 0; v < B; v++` and returns v and the normal form of B (locals
// resolved to their definitions, receiver as $r).
func countingLoop(f *an.Fn, fs *ast.ForStmt) (types.Object, string, bool) {
	info := f.Info()
	init, ok := fs.Init.(*ast.AssignStmt)
	if !ok || len(init.Lhs) != len(init.Rhs) {
		return nil, "", false
	}
	cond, ok := an.Unparen(fs.Cond).(*ast.BinaryExpr)
	if !ok || cond.Op != token.LSS {
		return nil, "", false
	}
	cid, ok := an.Unparen(cond.X).(*ast.Ident)
	if !ok {
		return nil, "", false
	}
	// the index: the variable of the init statement that starts at 0 and is compared with the bound
	// (`for i := 0; …` or `for i, n := 0, <bound>; i < n; …`)
	var v types.Object
	for k, l := range init.Lhs {
		if id, ok := l.(*ast.Ident); ok && an.ObjOf(info, id) == an.ObjOf(info, cid) && an.Str(init.Rhs[k]) == "0" {
			v = an.ObjOf(info, id)
		}
	}
	if v == nil {
		return nil, "", false
	}
	post, ok := fs.Post.(*ast.IncDecStmt)
	if !ok || post.Tok != token.INC {
		return nil, "", false
	}
	if pid, ok := an.Unparen(post.X).(*ast.Ident); !ok || an.ObjOf(info, pid) != v {
		return nil, "", false
	}
	bound := cond.Y
	if bid, ok := an.Unparen(cond.Y).(*ast.Ident); ok {
		for k, l := range init.Lhs {
			if id, ok := l.(*ast.Ident); ok && an.ObjOf(info, id) == an.ObjOf(info, bid) && len(an.LocalDefs(f, an.ObjOf(info, bid))) == 1 {
				bound = init.Rhs[k] // computed once in the init statement and not changed afterwards
			}
		}
	}
	return v, an.Norm(f, bound), true
}

// requireNumRule: Arguments.RequireNumOfArguments enforces both bounds (shared by C18.args and C14.count:
// "a wrong argument count is an error" for jet.Func values rests on it).
func requireNumRule(c *an.Ctx, rule string) {
	p := c.P
	if f := c.Fn(rule, "(*Arguments).RequireNumOfArguments"); f != nil {
		// for each bound parameter P (min, max): no normal return while `P >= 0` and `num beyond P` can both
		// hold, num being NumOfArguments().  The form of the test (two ifs, one if with ||, nested ifs) is free.
		finfo := f.Info()
		isNum := func(e ast.Expr) bool {
			e = an.Unparen(e)
			if call, ok := e.(*ast.CallExpr); ok {
				return an.IsCallTo(finfo, call, "(*jet.Arguments).NumOfArguments")
			}
			if id, ok := e.(*ast.Ident); ok {
				for _, d := range an.LocalDefs(f, an.ObjOf(finfo, id)) {
					if call, ok := an.Unparen(d).(*ast.CallExpr); ok && d != nil && an.IsCallTo(finfo, call, "(*jet.Arguments).NumOfArguments") {
						return true
					}
				}
			}
			return false
		}
		type bound struct {
			sign, cmp ast.Expr // P vs 0, num vs P
			both      ast.Expr // the && joining them, when there is one
		}
		bounds := map[types.Object]*bound{}
		var signBad []string
		paramOf := func(e ast.Expr) types.Object {
			if id, ok := an.Unparen(e).(*ast.Ident); ok {
				o := an.ObjOf(finfo, id)
				if i, isParam := an.IsParam(f, o); isParam && i >= 1 {
					return o
				}
			}
			return nil
		}
		classify := func(b *ast.BinaryExpr) (types.Object, string) {
			switch b.Op {
			case token.LSS, token.GTR, token.LEQ, token.GEQ, token.EQL, token.NEQ:
			default:
				return nil, ""
			}
			for _, pr := range [][2]ast.Expr{{b.X, b.Y}, {b.Y, b.X}} {
				if o := paramOf(pr[0]); o != nil {
					if tv, ok := finfo.Types[pr[1]]; ok && tv.Value != nil {
						return o, "sign"
					}
					if isNum(pr[1]) {
						return o, "cmp"
					}
				}
			}
			return nil, ""
		}
		an.InspectOwn(f, func(n ast.Node) bool {
			b, ok := n.(*ast.BinaryExpr)
			if !ok {
				return true
			}
			if o, kind := classify(b); o != nil {
				if bounds[o] == nil {
					bounds[o] = &bound{}
				}
				if kind == "sign" {
					bounds[o].sign = b
					// "the bound is set" must mean P >= 0 (a bound of 0 is a bound): P >= 0, 0 <= P, P > -1, -1 < P
					x, y := an.Str(an.Unparen(b.X)), an.Str(an.Unparen(b.Y))
					okSign := (b.Op == token.GEQ && y == "0") || (b.Op == token.LEQ && x == "0") || (b.Op == token.GTR && y == "-1") || (b.Op == token.LSS && x == "-1")
					if !okSign {
						signBad = append(signBad, an.Str(b))
					}
				} else {
					bounds[o].cmp = b
				}
			}
			if b.Op == token.LAND {
				lx, lok := an.Unparen(b.X).(*ast.BinaryExpr)
				rx, rok := an.Unparen(b.Y).(*ast.BinaryExpr)
				if lok && rok {
					lo, lk := classify(lx)
					ro, rk := classify(rx)
					if lo != nil && lo == ro && lk != rk {
						if bounds[lo] == nil {
							bounds[lo] = &bound{}
						}
						bounds[lo].both = b
					}
				}
			}
			return true
		})
		x := p.NewExplorer(f, an.Hooks{})
		x.Run(nil)
		c.States += x.Visited
		ok, why := len(bounds) == 2, "RequireNumOfArguments does not compare NumOfArguments() with both the minimum and the maximum"
		nRet := 0
		for _, ex := range x.Exits {
			if ex.Kind != an.ExitReturn {
				continue
			}
			nRet++
			for o, bd := range bounds {
				if bd.sign == nil || bd.cmp == nil {
					ok, why = false, "the bound "+o.Name()+" is not both tested for being set (>= 0) and compared with NumOfArguments()"
					continue
				}
				excluded := false
				if v, known := x.Truth(bd.sign, ex.State); known && !v {
					excluded = true
				}
				if v, known := x.Truth(bd.cmp, ex.State); known && !v {
					excluded = true
				}
				if bd.both != nil {
					if v, known := x.Truth(bd.both, ex.State); known && !v {
						excluded = true
					}
				}
				if !excluded {
					ok, why = false, "RequireNumOfArguments can return normally although the argument count may violate the bound "+o.Name()
				}
			}
		}
		if nRet == 0 {
			ok, why = false, "RequireNumOfArguments never returns"
		}
		if len(signBad) > 0 {
			ok, why = false, fmt.Sprintf("a bound counts as given only under `%s`, not under `>= 0`: a bound of 0 (no arguments allowed / at least none) is not enforced", signBad[0])
		}
		c.Check(ok, rule, "(*Arguments).RequireNumOfArguments", f.Pos(), "both bounds are compared with NumOfArguments() and a violated bound never lets the function return", why)
	}
}
