package rules

import (
	"go/ast"
	"go/constant"
	"go/token"
	"go/types"
	"regexp"
	"sort"
	"strings"

	"jetverif/an"
)

func init() {
	register(&Property{
		ID:  "C19",
		Run: runC19,
		Meta: an.Meta{
			Technique: "sibling agreement of normalised key expressions (Exists vs Open) for every Loader implementation, guard facts on CFG paths, who-may-use inventory of the loader list",
			Explanation: "Sibling agreement and guard rules over every module type that implements jet.Loader (discovered with types.Implements): (C19.agree) the normalised expression mapping the " +
				"path parameter to the key/filename handed to the backing store is identical in Exists and Open (locals inlined, receiver/parameter renamed); (C19.dir) an Exists backed by a file " +
				"system returns true only under the fact !info.IsDir() (or as a conjunct of the returned expression); (C19.inmem) every access to InMemLoader.files uses the key normalize(param), " +
				"normalize is path.Join(\"/\", filepath.ToSlash(p)), Open returns a reader over the stored bytes or a non-nil error when absent; (C19.multi) Multi ranges over its loaders front to back, " +
				"returns at the first success, and construction/AddLoaders preserve argument order (append at the end). (C19.multi, continued) AddLoaders never copies the contents of another multi loader's list. (C19.dir, continued) constructors of file-system loaders record their root as given and do not consult the file system. (C19.multi, continued) Multi.Open opens a member only where that member's Exists answered true for the same name. (C19.agree name-intact) for file-system loaders the template path reaches the backing store whole: between the path parameter and the key stand only Join, Clean, FromSlash and ToSlash — no function that can remove characters of the name (TrimLeft and its character set, TrimPrefix, Replace, slicing). (C19.inmem Open, continued) what the branches establish about the presence flag of the lookup is kept in a register, whatever the flag is called and wherever it is declared.",
			NotDecided:  "what the operating system / http.FileSystem / embed.FS return; Multi.Open choosing by first successful Open rather than first Exists (equivalent when members honour the contract); locking is C11.guard.",
			Assumptions: []string{"os.Stat/fs.Stat/http.File.Stat report IsDir truthfully", "path.Join and filepath.ToSlash/FromSlash behave as documented"},
			Trusted:     commonTrusted,
		},
		Mutants: []Mutant{
			{Name: "Multi.Open opens a member without asking whether the template exists (original defect)", File: "loaders/multi/multi.go", Old: "\t\tif !loader.Exists(name) {\n\t\t\tcontinue // (Open of a file-system loader succeeds on a directory, which is not a template)\n\t\t}\n", New: "", Rule: "C19.multi"},
			{Name: "httpfs rejects names containing two dots without asking the file system (agent seed C19/4)", File: "loaders/httpfs/loader.go", Old: "func (l *httpFileSystemLoader) Exists(name string) bool {\n", New: "func (l *httpFileSystemLoader) Exists(name string) bool {\n\tif len(name) > 2 && name[1] == '.' && name[2] == '.' {\n\t\treturn false\n\t}\n", Rule: "C19.dir"},
			{Name: "InMemLoader.Set overwrites the previous entry's buffer in place", File: "loader.go", Old: "\tl.files[templatePath] = []byte(contents)", New: "\tif old, ok := l.files[templatePath]; ok && len(old) >= len(contents) {\n\t\tl.files[templatePath] = old[:copy(old, contents)]\n\t\treturn\n\t}\n\tl.files[templatePath] = []byte(contents)", Rule: "C19.inmem"},
			{Name: "Multi.Open gives up at the first loader that reports another error than not-exist (agent seed C19/2)", File: "loaders/multi/multi.go", Old: "\t\tif f, err := loader.Open(name); err == nil {\n\t\t\treturn f, nil\n\t\t}\n", New: "\t\tf, err := loader.Open(name)\n\t\tif err == nil {\n\t\t\treturn f, nil\n\t\t}\n\t\tif !os.IsNotExist(err) {\n\t\t\treturn nil, err\n\t\t}\n", Rule: "C19.multi"},
			{Name: "normalize cleans before rooting, so ../x keeps its dots (agent seed C19/1)", File: "loader.go", Old: "\ttemplatePath = filepath.ToSlash(templatePath)\n\treturn path.Join(\"/\", templatePath)", New: "\ttemplatePath = path.Clean(filepath.ToSlash(templatePath))\n\tif !path.IsAbs(templatePath) {\n\t\ttemplatePath = \"/\" + templatePath\n\t}\n\treturn templatePath", Rule: "C19.inmem"},
			{Name: "equivalent: normalize as path.Clean(\"/\" + ToSlash(p))", File: "loader.go", Old: "\ttemplatePath = filepath.ToSlash(templatePath)\n\treturn path.Join(\"/\", templatePath)", New: "\ttemplatePath = filepath.ToSlash(templatePath)\n\treturn path.Clean(\"/\" + templatePath)", Rule: "-"},
			{Name: "OS loader Open forgets FromSlash", File: "loader.go", Old: "return os.Open(filepath.Join(l.dir, filepath.FromSlash(templatePath)))", New: "return os.Open(filepath.Join(l.dir, templatePath))", Rule: "C19.agree"},
			{Name: "OS loader Exists accepts directories", File: "loader.go", Old: "if err == nil && !stat.IsDir() {", New: "if err == nil && stat != nil {", Rule: "C19.dir"},
			{Name: "httpfs Exists accepts directories (original defect)", File: "loaders/httpfs/loader.go", Old: "return err == nil && !stat.IsDir()", New: "return err == nil && stat != nil", Rule: "C19.dir"},
			{Name: "embedfs Exists accepts directories", File: "loaders/embedfs/loader.go", Old: "if err == nil && !stat.IsDir() {", New: "if err == nil && stat != nil {", Rule: "C19.dir"},
			{Name: "embedfs Open ignores the directory prefix", File: "loaders/embedfs/loader.go", Old: "return l.fs.Open(filepath.Join(l.dir, filepath.FromSlash(name)))", New: "return l.fs.Open(filepath.FromSlash(name))", Rule: "C19.agree"},
			{Name: "InMemLoader.Delete skips normalize", File: "loader.go", Old: "func (l *InMemLoader) Delete(templatePath string) {\n\ttemplatePath = l.normalize(templatePath)\n", New: "func (l *InMemLoader) Delete(templatePath string) {\n", Rule: "C19.inmem"},
			{Name: "InMemLoader.Exists skips normalize", File: "loader.go", Old: "func (l *InMemLoader) Exists(templatePath string) bool {\n\ttemplatePath = l.normalize(templatePath)\n", New: "func (l *InMemLoader) Exists(templatePath string) bool {\n", Rule: "C19.agree"},
			{Name: "normalize no longer roots the path", File: "loader.go", Old: "return path.Join(\"/\", templatePath)", New: "return path.Clean(templatePath)", Rule: "C19.inmem"},
			{Name: "Multi.Exists consults loaders back to front", File: "loaders/multi/multi.go", Old: "\tfor _, loader := range m.loaders {\n\t\tif ok := loader.Exists(name); ok {\n\t\t\treturn true\n\t\t}\n\t}", New: "\tfor i := len(m.loaders) - 1; i >= 0; i-- {\n\t\tif ok := m.loaders[i].Exists(name); ok {\n\t\t\treturn true\n\t\t}\n\t}", Rule: "C19.multi"},
			{Name: "AddLoaders prepends", File: "loaders/multi/multi.go", Old: "m.loaders = append(m.loaders, loaders...)", New: "m.loaders = append(loaders, m.loaders...)", Rule: "C19.multi"},
			{Name: "Multi.Open keeps looking after a success (last wins)", File: "loaders/multi/multi.go", Old: "\t\tif f, err := loader.Open(name); err == nil {\n\t\t\treturn f, nil\n\t\t}\n\t}\n\treturn nil, &os.PathError", New: "\t\tif f, err := loader.Open(name); err == nil {\n\t\t\tif res != nil {\n\t\t\t\tres.Close()\n\t\t\t}\n\t\t\tres = f\n\t\t}\n\t}\n\tif res != nil {\n\t\treturn res, nil\n\t}\n\treturn nil, &os.PathError", More: []Edit{{File: "loaders/multi/multi.go", Old: "func (m *Multi) Open(name string) (io.ReadCloser, error) {\n", New: "func (m *Multi) Open(name string) (io.ReadCloser, error) {\n\tvar res io.ReadCloser\n"}}, Rule: "C19.multi"},
			{Name: "InMemLoader.Open serves another entry when absent", File: "loader.go", Old: "\tif !ok {\n\t\treturn nil, fmt.Errorf(\"%s does not exist\", templatePath)\n\t}\n", New: "\tif !ok {\n\t\tf = l.files[\"/\"]\n\t\t_ = fmt.Sprint\n\t}\n", Rule: "C19.inmem"},
		},
	})
}

// backing access of a loader method: a call or map index that receives a value derived from the path parameter
type backing struct {
	what string // callee name or "index:<Type.field>"
	key  string // normalised expression of the path-derived argument
	pos  token.Pos
	fs   bool // file-system backed
}

var keyDerivation = []string{"filepath.", "path.", "strings.", "fmt.", "errors."}

func runC19(c *an.Ctx) {
	p := c.P
	loaderIf := p.Iface("", "Loader")
	if loaderIf == nil {
		c.Anchor("C19.agree", "interface jet.Loader")
		return
	}
	type loaderType struct {
		pk    string
		named *types.Named
	}
	var loaders []loaderType
	for _, pk := range p.Pkgs {
		sc := pk.Types.Scope()
		for _, name := range sc.Names() {
			tn, ok := sc.Lookup(name).(*types.TypeName)
			if !ok {
				continue
			}
			named, ok := tn.Type().(*types.Named)
			if !ok {
				continue
			}
			if _, isIface := named.Underlying().(*types.Interface); isIface {
				continue
			}
			if an.ImplementsIface(named, loaderIf) {
				rel := strings.TrimPrefix(strings.TrimPrefix(pk.PkgPath, an.JetPath), "/")
				loaders = append(loaders, loaderType{rel, named})
			}
		}
	}
	c.Expect("C19.agree", "types implementing jet.Loader", len(loaders), 5)
	sort.Slice(loaders, func(i, j int) bool { return loaders[i].named.Obj().Name() < loaders[j].named.Obj().Name() })

	for _, lt := range loaders {
		tname := lt.named.Obj().Name()
		method := func(m string) *an.Fn {
			obj, _, _ := types.LookupFieldOrMethod(types.NewPointer(lt.named), true, lt.named.Obj().Pkg(), m)
			f, _ := obj.(*types.Func)
			return p.FnByObj[f]
		}
		ex, op := method("Exists"), method("Open")
		if ex == nil || op == nil {
			c.Anchor("C19.agree", tname+".Exists/Open")
			continue
		}
		c.FnsAnalysed[ex.Name], c.FnsAnalysed[op.Name] = true, true
		bex, bop := backingAccesses(p, ex), backingAccesses(p, op)
		c.CallSites += len(bex) + len(bop)
		key := tname
		// Exists implemented by Open (or the reverse)?
		delegates := false
		for _, b := range bex {
			if b.what == an.FuncName(op.Obj) && b.key == "$p0" {
				delegates = true
			}
		}
		switch {
		case len(bex) == 0 || len(bop) == 0:
			c.Bad("C19.agree", key, ex.Pos(), nil, "no backing-store access that receives the path was found in %s.Exists or %s.Open", tname, tname)
		case delegates:
			c.OK("C19.agree", key, ex.Pos(), "Exists is implemented by calling Open with the unchanged path")
		default:
			keys := map[string]bool{}
			for _, b := range append(append([]backing{}, bex...), bop...) {
				keys[b.key] = true
			}
			if len(keys) == 1 {
				c.OK("C19.agree", key, ex.Pos(), "Exists and Open hand the backing store the same key: %s", bex[0].key)
			} else {
				var ks []string
				for k := range keys {
					ks = append(ks, k)
				}
				sort.Strings(ks)
				c.Bad("C19.agree", key, op.Pos(), ks, "%s.Exists and %s.Open map the path to different backing-store keys: a path that Exists accepts is opened elsewhere (or not at all)", tname, tname)
			}
		}
		// C19.dir
		isFS := false
		for _, b := range append(append([]backing{}, bex...), bop...) { // a loader whose Exists goes through its own Open is as file-system backed as its Open
			if b.fs {
				isFS = true
			}
		}
		if isFS {
			dirRule(c, ex, tname)
			// the name reaches the file system whole: between the path parameter and the backing-store key stand only
			// functions that re-spell separators or join and clean (Join, Clean, FromSlash, ToSlash) — anything that can
			// remove characters of the name (TrimLeft with its character *set*, TrimPrefix, Replace, slicing) makes
			// different template paths name one file, or a path name a file that is not under it
			intact := true
			offender := ""
			for _, b := range append(append([]backing{}, bex...), bop...) {
				if !strings.Contains(b.key, "$p0") {
					continue
				}
				var checkKey func(key string, depth int)
				checkKey = func(key string, depth int) {
					for _, m := range regexp.MustCompile(`([A-Za-z_][A-Za-z0-9_.]*)\(`).FindAllStringSubmatch(key, -1) {
						switch m[1] {
						case "filepath.Join", "path.Join", "filepath.Clean", "path.Clean", "filepath.FromSlash", "filepath.ToSlash", "string":
							continue
						}
						// a method of the loader that is a single `return <expression>`: what it returns is checked instead
						if strings.HasPrefix(m[1], "r.") && depth < 3 {
							if g := method(strings.TrimPrefix(m[1], "r.")); g != nil && g.Body != nil && len(g.Body.List) == 1 {
								if ret, ok := g.Body.List[0].(*ast.ReturnStmt); ok && len(ret.Results) == 1 {
									checkKey(an.Norm(g, ret.Results[0]), depth+1)
									continue
								}
							}
						}
						intact, offender = false, m[1]+" in "+key
					}
					if strings.Contains(key, "$p0[") {
						intact, offender = false, "slicing in "+key
					}
				}
				checkKey(b.key, 0)
			}
			c.Check(intact, "C19.agree", tname+"/name-intact", ex.Pos(), "the template path reaches the file system whole (separators re-spelt, joined to the directory, nothing removed)",
				tname+" builds the file name from the template path with "+offender+": part of the name can be removed, so distinct template paths reach one file or a path reaches a file it does not name")
			// a file-system loader answers from the file system alone: every return of Exists and Open lies
			// behind a backing-store access (no path is rejected or accepted on its spelling)
			for _, m := range []struct {
				f  *an.Fn
				bs []backing
			}{{ex, bex}, {op, bop}} {
				at := map[token.Pos]bool{}
				for _, b := range m.bs {
					at[b.pos] = true
				}
				hooks := an.Hooks{Call: func(x *an.Explorer, call *ast.CallExpr, st *an.State) {
					if at[call.Pos()] {
						st.Set("asked", "1")
					}
				}}
				x := p.NewExplorer(m.f, hooks)
				x.Run(nil)
				c.States += x.Visited
				okAsk := len(x.Exits) > 0
				var trail []string
				for _, e := range x.Exits {
					if e.Kind == an.ExitReturn && e.State.Get("asked") == "" {
						okAsk, trail = false, e.Trail
					}
				}
				if okAsk {
					c.OK("C19.dir", m.f.Name+"/asks-the-file-system", m.f.Pos(), "every return lies behind an access to the file system with the given path")
				} else {
					c.Bad("C19.dir", m.f.Name+"/asks-the-file-system", m.f.Pos(), trail, "%s can answer without asking the file system: some paths are accepted or rejected by their spelling, so the loader no longer reports exactly the regular files below its root", m.f.Name)
				}
			}
		}
	}
	inmemRules(c)
	multiRules(c)
	// a file-system loader answers from the file system as it is when it is asked: its constructor only
	// records where to look — it does not consult the file system (resolving a symlinked root once, or
	// making the root absolute against the working directory of that moment, freezes an answer)
	nCtor := 0
	for _, f := range p.Units() {
		if f.Body == nil || f.Sig == nil || f.Sig.Recv() != nil || f.Sig.Results().Len() == 0 || f.Lit != nil {
			continue
		}
		rt := an.TypeName(f.Sig.Results().At(0).Type())
		if !(strings.HasSuffix(rt, "OSFileSystemLoader") || strings.HasSuffix(rt, "embedFileSystemLoader") || strings.HasSuffix(rt, "httpFileSystemLoader") || (strings.Contains(rt, "Loader") && strings.Contains(f.Name, "NewLoader") && !strings.Contains(f.Name, "multi."))) {
			continue
		}
		finfo := f.Info()
		nCtor++
		var fsCall *ast.CallExpr
		an.InspectOwn(f, func(n ast.Node) bool {
			if call, ok := n.(*ast.CallExpr); ok && fsCall == nil {
				name := an.CalleeName(finfo, call)
				switch {
				case strings.HasPrefix(name, "os."), strings.HasPrefix(name, "ioutil."), strings.HasPrefix(name, "fs."),
					name == "filepath.EvalSymlinks", name == "filepath.Abs", name == "filepath.Glob", name == "filepath.Walk", name == "filepath.WalkDir":
					fsCall = call
				}
			}
			return true
		})
		if fsCall != nil {
			c.Bad("C19.dir", f.Name+"/constructor-records-only", fsCall.Pos(), nil, "%s consults the file system (%s) when the loader is built: what it finds then is frozen into the loader, which no longer reports the files below its root as they are when Exists/Open are asked", f.Name, an.Str(fsCall.Fun))
		} else {
			c.OK("C19.dir", f.Name+"/constructor-records-only", f.Pos(), "the constructor only records the root")
		}
	}
	c.Expect("C19.dir", "constructors of file-system loaders", nCtor, 2)
}

func backingAccesses(p *an.Prog, f *an.Fn) []backing {
	info := f.Info()
	pathParam := an.Param(f, 0)
	var out []backing
	derived := func(e ast.Expr) bool {
		s := an.Norm(f, e)
		return strings.Contains(s, "$p0")
	}
	_ = pathParam
	an.InspectOwn(f, func(n ast.Node) bool {
		switch x := n.(type) {
		case *ast.CallExpr:
			name := an.CalleeName(info, x)
			for _, pre := range keyDerivation {
				if strings.HasPrefix(name, pre) {
					return true
				}
			}
			if strings.HasPrefix(name, "conv:") || strings.HasPrefix(name, "builtin.") && name != "builtin.delete" {
				return true
			}
			// methods of the receiver's own type and functions of the module that turn strings into one
			// string are key derivations (normalize)
			if callee := an.Callee(info, x); callee != nil {
				if sig := callee.Type().(*types.Signature); sig.Results().Len() == 1 && isString(sig.Results().At(0).Type()) {
					if sig.Recv() != nil && f.Sig.Recv() != nil && an.NamedOf(sig.Recv().Type()) == an.NamedOf(f.Sig.Recv().Type()) {
						return true
					}
					if g := p.FnByObj[callee]; g != nil && g.Pkg == f.Pkg && sig.Recv() == nil && allStrings(sig.Params()) {
						return true
					}
				}
			}
			if name == "builtin.delete" && len(x.Args) == 2 && derived(x.Args[1]) {
				out = append(out, backing{what: "index:" + p.FieldKey(info, x.Args[0]), key: an.Norm(f, x.Args[1]), pos: x.Pos()})
				return true
			}
			for _, a := range x.Args {
				if isString(info.Types[a].Type) && derived(a) {
					fs := false
					switch name {
					case "os.Stat", "os.Open", "os.Lstat", "fs.Stat", "(http.FileSystem).Open", "(embed.FS).Open", "(fs.FS).Open", "fs.ReadFile", "os.ReadFile":
						fs = true
					}
					out = append(out, backing{what: name, key: an.Norm(f, a), pos: x.Pos(), fs: fs})
					break
				}
			}
		case *ast.IndexExpr:
			if fk := p.FieldKey(info, x.X); fk != "" && derived(x.Index) {
				if _, isMap := info.Types[x.X].Type.Underlying().(*types.Map); isMap {
					out = append(out, backing{what: "index:" + fk, key: an.Norm(f, x.Index), pos: x.Pos()})
				}
			}
		}
		return true
	})
	return out
}

// dirRule: Exists returns true only for something that is known not to be a directory.
func dirRule(c *an.Ctx, ex *an.Fn, tname string) {
	p := c.P
	info := ex.Info()
	x := p.NewExplorer(ex, an.Hooks{})
	x.Run(nil)
	c.States += x.Visited
	key := tname + ".Exists"
	bad := false
	nTrue := 0
	for _, e := range x.Exits {
		if e.Kind != an.ExitReturn || e.Ret == nil || len(e.Ret.Results) != 1 {
			continue
		}
		res := an.Unparen(e.Ret.Results[0])
		if tv := info.Types[res]; tv.Value != nil && tv.Value.Kind() == constant.Bool {
			if !constant.BoolVal(tv.Value) {
				continue
			}
			nTrue++
			notDir := false
			for k, v := range e.State.Facts {
				if !v && strings.HasSuffix(an.PlainKey(k), ".IsDir()") {
					notDir = true
				}
			}
			if !notDir {
				bad = true
				c.Bad("C19.dir", key, e.Ret.Pos(), e.Trail, "%s.Exists returns true on a path that never established !IsDir(): a directory is reported as an existing template", tname)
				break
			}
			continue
		}
		// returned expression: must contain the conjunct !X.IsDir()
		nTrue++
		if !hasNotDirConjunct(res) {
			bad = true
			c.Bad("C19.dir", key, e.Ret.Pos(), e.Trail, "%s.Exists returns %s, which can be true for a directory (no !IsDir() conjunct)", tname, an.Str(res))
			break
		}
	}
	if !bad {
		if nTrue == 0 {
			c.Bad("C19.dir", key, ex.Pos(), nil, "%s.Exists never returns true", tname)
		} else {
			c.OK("C19.dir", key, ex.Pos(), "true is returned only for non-directories (%d returning exit(s))", nTrue)
		}
	}
}

func hasNotDirConjunct(e ast.Expr) bool {
	e = an.Unparen(e)
	if b, ok := e.(*ast.BinaryExpr); ok && b.Op == token.LAND {
		return hasNotDirConjunct(b.X) || hasNotDirConjunct(b.Y)
	}
	if u, ok := e.(*ast.UnaryExpr); ok && u.Op == token.NOT {
		if call, ok := an.Unparen(u.X).(*ast.CallExpr); ok {
			if sel, ok := call.Fun.(*ast.SelectorExpr); ok && sel.Sel.Name == "IsDir" {
				return true
			}
		}
	}
	return false
}

func allStrings(t *types.Tuple) bool {
	for i := 0; i < t.Len(); i++ {
		if !isString(t.At(i).Type()) {
			return false
		}
	}
	return t.Len() > 0
}

var keyCallRe = regexp.MustCompile(`^(\$r\.)?(\w+)\(\$p0\)$`)

func inmemRules(c *an.Ctx) {
	p := c.P
	// "Open(p) yields exactly the content stored under p": the stored bytes are a private copy that is never written again
	ns := checkFresh(c, "C19.inmem", fieldIndexStores(c, "InMemLoader.files"), "content that shares storage with an earlier entry or with the caller changes after it was stored, so a reader returned by Open sees bytes that were never Set under that path", false)
	c.Expect("C19.inmem", "stores into InMemLoader.files", ns, 1)
	inPlaceWrites(c, "C19.inmem", "InMemLoader.files", "a reader returned by an earlier Open would see a mix of old and new content")
	info := p.Jet.TypesInfo
	// the key derivation is whatever function the accesses to files apply to the path parameter: one and
	// the same for every access (a method of the loader or a function of the package), and it must root
	// and clean the slash-separated spelling
	okForm := func(g *an.Fn) bool {
		okNorm := false
		an.InspectOwn(g, func(n ast.Node) bool {
			if ret, ok := n.(*ast.ReturnStmt); ok && len(ret.Results) == 1 {
				switch an.Norm(g, ret.Results[0]) {
				case `path.Join("/", filepath.ToSlash($p0))`, `path.Clean(("/" + filepath.ToSlash($p0)))`:
					okNorm = true // both root the slash-separated spelling and clean it; ".." cannot climb above "/"
				}
			}
			return true
		})
		return okNorm
	}
	var norm *an.Fn
	keyForm := ""
	keyOK := func(f *an.Fn, got string) bool {
		switch got {
		case `path.Join("/", filepath.ToSlash($p0))`, `path.Clean(("/" + filepath.ToSlash($p0)))`:
			if keyForm == "" {
				keyForm = got
			}
			return got == keyForm
		}
		m := keyCallRe.FindStringSubmatch(got)
		if m == nil {
			return false
		}
		var g *an.Fn
		for _, cand := range p.Fns {
			if cand.Pkg != p.Jet || cand.Obj == nil || cand.Body == nil || cand.Obj.Name() != m[2] || cand.Sig == nil {
				continue
			}
			isMethod := cand.Sig.Recv() != nil
			if isMethod != (m[1] != "") || isMethod && an.TypeName(cand.Sig.Recv().Type()) != "*jet.InMemLoader" {
				continue
			}
			g = cand
		}
		if g == nil || norm != nil && g != norm {
			return false
		}
		if norm == nil {
			norm, keyForm = g, got
		}
		return true
	}
	// every access to files in a method with a path parameter uses normalize(param)
	n := 0
	for _, f := range p.Units() {
		if f.Pkg != p.Jet || f.Sig == nil || f.Sig.Recv() == nil || an.TypeName(f.Sig.Recv().Type()) != "*jet.InMemLoader" {
			continue
		}
		if f.Sig.Params().Len() == 0 || !isString(f.Sig.Params().At(0).Type()) {
			continue
		}
		c.FnsAnalysed[f.Name] = true
		check := func(idx ast.Expr, pos token.Pos) {
			n++
			got := an.Norm(f, idx)
			c.Check(keyOK(f, got), "C19.inmem", f.Name+"/key", pos, "files is indexed with normalize(path)",
				"InMemLoader.files is accessed with key "+got+" instead of normalize(path): the entry is stored/looked up under a spelling-dependent key")
		}
		an.InspectOwn(f, func(node ast.Node) bool {
			switch x := node.(type) {
			case *ast.IndexExpr:
				if p.FieldKey(info, x.X) == "InMemLoader.files" {
					check(x.Index, x.Pos())
				}
			case *ast.CallExpr:
				if an.IsCallTo(info, x, "builtin.delete") && len(x.Args) == 2 && p.FieldKey(info, x.Args[0]) == "InMemLoader.files" {
					check(x.Args[1], x.Pos())
				}
			}
			return true
		})
	}
	c.Expect("C19.inmem", "accesses to InMemLoader.files", n, 4)
	if norm != nil {
		c.FnsAnalysed[norm.Name] = true
		c.Check(okForm(norm), "C19.inmem", "normalize", norm.Pos(), `normalize is path.Join("/", filepath.ToSlash(p))`, norm.Name+` is not path.Join("/", filepath.ToSlash(p)): spellings of one clean absolute path are no longer one entry`)
	} else if keyForm != "" {
		c.OK("C19.inmem", "normalize", token.NoPos, "the key is computed in place as %s", keyForm)
	} else {
		c.Bad("C19.inmem", "normalize", token.NoPos, nil, "no access to InMemLoader.files derives its key from the path by rooting and cleaning it")
	}
	// Open: returns a reader over the value read from the map, or a non-nil error when absent
	if op := c.Fn("C19.inmem", "(*InMemLoader).Open"); op != nil {
		oinfo := op.Info()
		// the presence flag of the lookup `v, ok := files[key]` (whatever it is called, wherever it is declared):
		// what the branches establish about it is kept in a register, the flag may be local to an if
		var okIds []*ast.Ident
		an.InspectOwn(op, func(n ast.Node) bool {
			if as, isAs := n.(*ast.AssignStmt); isAs && len(as.Lhs) == 2 && len(as.Rhs) == 1 {
				if ix, isIx := an.Unparen(as.Rhs[0]).(*ast.IndexExpr); isIx && p.FieldKey(oinfo, ix.X) == "InMemLoader.files" {
					if id, isId := as.Lhs[1].(*ast.Ident); isId && id.Name != "_" {
						okIds = append(okIds, id)
					}
				}
				// … or the second result of a helper that makes the lookup (under the lock) and hands both results back
				if call, isCall := an.Unparen(as.Rhs[0]).(*ast.CallExpr); isCall {
					if g := p.FnByObj[an.Callee(oinfo, call)]; g != nil && g.Body != nil && g.Sig != nil && g.Sig.Results().Len() == 2 {
						looksUp := false
						an.InspectBody(g, func(m ast.Node) bool {
							if ix, isIx := m.(*ast.IndexExpr); isIx && p.FieldKey(g.Info(), ix.X) == "InMemLoader.files" {
								looksUp = true
							}
							return !looksUp
						})
						if id, isId := as.Lhs[1].(*ast.Ident); isId && id.Name != "_" && looksUp {
							okIds = append(okIds, id)
						}
					}
				}
			}
			return true
		})
		x := p.NewExplorer(op, an.Hooks{Branch: func(x *an.Explorer, cond ast.Expr, val bool, st *an.State) {
			for _, id := range okIds {
				if t, known := x.Truth(id, st); known {
					if t {
						st.Set("present", "yes")
					} else {
						st.Set("present", "no")
					}
				}
			}
		}})
		x.Run(nil)
		c.States += x.Visited
		okOpen := true
		nRet := 0
		for _, e := range x.Exits {
			if e.Kind != an.ExitReturn || e.Ret == nil || len(e.Ret.Results) != 2 {
				continue
			}
			nRet++
			val, errv := an.Norm(op, e.Ret.Results[0]), an.Unparen(e.Ret.Results[1])
			errIsNil := false
			if id, ok := errv.(*ast.Ident); ok && id.Name == "nil" {
				errIsNil = true
			}
			present := e.State.Get("present") == "yes"
			absent := e.State.Get("present") == "no"
			switch {
			case errIsNil && !present:
				okOpen = false
				c.Bad("C19.inmem", "(*InMemLoader).Open/absent", e.Ret.Pos(), e.Trail, "Open returns a nil error on a path where the entry was not found")
			case errIsNil && !strings.Contains(val, "$r.files["+keyForm+"]"):
				okOpen = false
				c.Bad("C19.inmem", "(*InMemLoader).Open/content", e.Ret.Pos(), e.Trail, "Open returns %s, which is not a reader over the bytes stored under the normalised path", val)
			case !errIsNil && !absent:
				okOpen = false
				c.Bad("C19.inmem", "(*InMemLoader).Open/present", e.Ret.Pos(), e.Trail, "Open returns an error although the entry may be present")
			}
		}
		_ = oinfo
		if okOpen && nRet >= 2 {
			c.OK("C19.inmem", "(*InMemLoader).Open", op.Pos(), "Open returns a reader over files[normalize(path)] when present and an error when absent")
		} else if okOpen {
			c.Bad("C19.inmem", "(*InMemLoader).Open", op.Pos(), nil, "Open does not distinguish present and absent entries")
		}
	}
}

func multiRules(c *an.Ctx) {
	p := c.P
	pk := p.ByRel["loaders/multi"]
	if pk == nil {
		c.Anchor("C19.multi", "package loaders/multi")
		return
	}
	info := pk.TypesInfo
	nLoops := 0
	for _, f := range p.Units() {
		if f.Pkg != pk || f.Body == nil {
			continue
		}
		an.InspectOwn(f, func(n ast.Node) bool {
			sel, ok := n.(*ast.SelectorExpr)
			if !ok || p.FieldKey(info, sel) != "multi.Multi.loaders" {
				return true
			}
			encl := an.EnclosingStmts(f, sel)
			var parent ast.Node
			if len(encl) > 0 {
				parent = encl[len(encl)-1]
			}
			key := f.Name
			switch ps := parent.(type) {
			case *ast.RangeStmt:
				if ps.X == ast.Expr(sel) {
					nLoops++
					c.FnsAnalysed[f.Name] = true
					// first success wins: once a loader answered positively no further loader is consulted
					// (typestate over the paths of the method; the shape of the loop body is free)
					first := multiFirstWins(c, f)
					// the element consulted is the range value
					c.Check(first, "C19.multi", key+"/first-wins", ps.Pos(), "ranges front to back and returns at the first success", "the loop over the loaders does not return at the first success: a later loader can win")
					// a member's Open alone is weaker than its Exists (a file-system loader opens directories): what
					// Multi.Open hands out comes from a member that also said the template exists
					multiOpensWhatExists(c, f)
					// a failure of one loader must not end the search: every return inside the loop is a success return
					giveUp := token.NoPos
					ast.Inspect(ps.Body, func(m ast.Node) bool {
						if _, isLit := m.(*ast.FuncLit); isLit {
							return false
						}
						ret, isRet := m.(*ast.ReturnStmt)
						if !isRet || len(ret.Results) == 0 {
							return true
						}
						last := an.Unparen(ret.Results[len(ret.Results)-1])
						success := false
						if id, isId := last.(*ast.Ident); isId && (id.Name == "nil" || id.Name == "true") {
							success = true
						}
						if !success {
							giveUp = ret.Pos()
						}
						return true
					})
					if giveUp.IsValid() {
						c.Bad("C19.multi", key+"/keeps-looking", giveUp, nil, "%s returns a failure from inside the loop over the loaders: a loader that does not have the path (or fails) hides the later loaders that do", f.Name)
					} else {
						c.OK("C19.multi", key+"/keeps-looking", ps.Pos(), "a loader that fails does not end the search")
					}
					return true
				}
			case *ast.AssignStmt:
				if len(ps.Lhs) == 1 && ps.Lhs[0] == ast.Expr(sel) {
					// store: nil, or append(m.loaders, x...)
					rhs := an.Unparen(ps.Rhs[0])
					if id, ok := rhs.(*ast.Ident); ok && id.Name == "nil" {
						return true
					}
					if call, ok := rhs.(*ast.CallExpr); ok && an.IsCallTo(info, call, "builtin.append") {
						snapshot := false
						for _, a := range call.Args[1:] {
							if p.FieldKey(info, a) == "multi.Multi.loaders" {
								snapshot = true
							}
						}
						if snapshot {
							c.Bad("C19.multi", key+"/append", ps.Pos(), nil, "the contents of another multi loader's list are copied into this one (%s): the nested loader is no longer asked itself, so loaders added to or removed from it later are not seen — the answer no longer comes from the first loader, in construction order, that has the path", an.Str(rhs))
						} else if p.FieldKey(info, call.Args[0]) == "multi.Multi.loaders" {
							c.OK("C19.multi", key+"/append", ps.Pos(), "new loaders are appended after the existing ones")
						} else {
							c.Bad("C19.multi", key+"/append", ps.Pos(), nil, "the loader list is rebuilt as %s: existing loaders no longer come first (construction order is not preserved)", an.Str(rhs))
						}
						return true
					}
					c.Bad("C19.multi", key+"/store", ps.Pos(), nil, "unexpected store to Multi.loaders: %s", an.Str(rhs))
					return true
				}
				// the read inside append(m.loaders, …) on the right-hand side
				return true
			case *ast.KeyValueExpr:
				return true
			}
			// the argument position of append is fine; anything else (indexing, len) breaks the forward-order argument
			for i := len(encl) - 1; i >= 0; i-- {
				if call, ok := encl[i].(*ast.CallExpr); ok && an.IsCallTo(info, call, "builtin.append") {
					return true
				}
				if _, ok := encl[i].(ast.Stmt); ok {
					break
				}
			}
			c.Bad("C19.multi", key+"/use", sel.Pos(), nil, "Multi.loaders is used other than by ranging over it or appending to it (%s): loaders may no longer be consulted in construction order", an.Str(parent))
			return true
		})
	}
	c.Expect("C19.multi", "loops over Multi.loaders", nLoops, 2)
	// NewLoader keeps the argument order
	if nl := c.Fn("C19.multi", "multi.NewLoader"); nl != nil {
		ok := false
		an.InspectOwn(nl, func(n ast.Node) bool {
			if kv, isKV := n.(*ast.KeyValueExpr); isKV && an.Str(kv.Key) == "loaders" {
				if an.Norm(nl, kv.Value) == "$p0" {
					ok = true
				}
			}
			return true
		})
		c.Check(ok, "C19.multi", "multi.NewLoader/order", nl.Pos(), "NewLoader stores its arguments in the given order", "NewLoader does not store its loaders argument unchanged")
	}
}

// multiFirstWins: in f (a method looping over Multi.loaders), after Loader.Exists returned true or
// Loader.Open returned a nil error, no further Loader call happens before the method returns.
func multiFirstWins(c *an.Ctx, f *an.Fn) bool {
	p := c.P
	info := f.Info()
	okVars, errVars := map[types.Object]bool{}, map[types.Object]bool{}
	var lookups []*ast.CallExpr
	an.InspectOwn(f, func(n ast.Node) bool {
		if call, ok := n.(*ast.CallExpr); ok && an.IsCallTo(info, call, "(jet.Loader).Exists", "(jet.Loader).Open") {
			lookups = append(lookups, call)
		}
		as, ok := n.(*ast.AssignStmt)
		if !ok || len(as.Rhs) != 1 {
			return true
		}
		call, ok := an.Unparen(as.Rhs[0]).(*ast.CallExpr)
		if !ok {
			return true
		}
		switch {
		case an.IsCallTo(info, call, "(jet.Loader).Exists") && len(as.Lhs) == 1:
			if id, ok := as.Lhs[0].(*ast.Ident); ok {
				okVars[an.ObjOf(info, id)] = true
			}
		case an.IsCallTo(info, call, "(jet.Loader).Open") && len(as.Lhs) == 2:
			if id, ok := as.Lhs[1].(*ast.Ident); ok {
				errVars[an.ObjOf(info, id)] = true
			}
		}
		return true
	})
	if len(lookups) == 0 {
		return false
	}
	good, reached := true, false
	x := p.NewExplorer(f, an.Hooks{
		Branch: func(x *an.Explorer, cond ast.Expr, val bool, st *an.State) {
			branchLeaves(x, cond, val, st, func(e ast.Expr, val bool) {
				e = an.Unparen(e)
				if call, ok := e.(*ast.CallExpr); ok && an.IsCallTo(info, call, "(jet.Loader).Exists") && val {
					// (the loader that says the path exists may be asked to open it: one consultation)
					st.Set("hit", "exists")
					if k, ok := x.Key(an.Receiver(call)); ok {
						st.Set("hit", "exists:"+k)
					}
				}
				if id, ok := e.(*ast.Ident); ok && okVars[an.ObjOf(info, id)] && val {
					st.Set("hit", "1")
				}
				if b, ok := e.(*ast.BinaryExpr); ok && (b.Op == token.EQL || b.Op == token.NEQ) && an.Str(b.Y) == "nil" {
					if id, ok := an.Unparen(b.X).(*ast.Ident); ok && errVars[an.ObjOf(info, id)] && val == (b.Op == token.EQL) {
						st.Set("hit", "1")
					}
				}
			})
		},
		Call: func(x *an.Explorer, call *ast.CallExpr, st *an.State) {
			// the loader that said "exists" is handed to something else that decides (accept(loader)): its outcome counts
			if hit := st.Get("hit"); strings.HasPrefix(hit, "exists:") && !an.IsCallTo(info, call, "(jet.Loader).Exists", "(jet.Loader).Open") {
				for _, a := range call.Args {
					if k, ok := x.Key(a); ok && hit == "exists:"+k {
						st.Set("hit", "")
					}
				}
			}
			if an.IsCallTo(info, call, "(jet.Loader).Exists", "(jet.Loader).Open") {
				reached = true
				hit := st.Get("hit")
				if hit != "" {
					if k, ok := x.Key(an.Receiver(call)); ok && an.IsCallTo(info, call, "(jet.Loader).Open") && hit == "exists:"+k {
						st.Set("hit", "") // opening what this very loader said exists; the outcome of Open decides
						return
					}
					good = false
				}
			}
		},
	})
	x.Run(nil)
	c.States += x.Visited
	return good && reached && x.Undecided == ""
}

// multiOpensWhatExists: every (jet.Loader).Open call of f lies on paths on which the same loader's Exists
// answered true for the same name.
func multiOpensWhatExists(c *an.Ctx, f *an.Fn) {
	p := c.P
	info := f.Info()
	var opens []*ast.CallExpr
	an.InspectOwn(f, func(n ast.Node) bool {
		if call, ok := n.(*ast.CallExpr); ok && an.IsCallTo(info, call, "(jet.Loader).Open") {
			opens = append(opens, call)
		}
		return true
	})
	if len(opens) == 0 {
		return
	}
	okVars := map[types.Object]*ast.CallExpr{}
	an.InspectOwn(f, func(n ast.Node) bool {
		an.Assigns(n, func(lhs, rhs ast.Expr, _ token.Token) {
			if rhs == nil {
				return
			}
			if call, ok := an.Unparen(rhs).(*ast.CallExpr); ok && an.IsCallTo(info, call, "(jet.Loader).Exists") {
				if id, ok := an.Unparen(lhs).(*ast.Ident); ok {
					okVars[an.ObjOf(info, id)] = call
				}
			}
		})
		return true
	})
	sig := func(call *ast.CallExpr) string {
		if len(call.Args) != 1 {
			return ""
		}
		return an.Str(an.Receiver(call)) + "|" + an.Str(call.Args[0])
	}
	bad := token.NoPos
	x := p.NewExplorer(f, an.Hooks{
		Branch: func(x *an.Explorer, cond ast.Expr, val bool, st *an.State) {
			e := an.Unparen(cond)
			for {
				u, ok := e.(*ast.UnaryExpr)
				if !ok || u.Op != token.NOT {
					break
				}
				val = !val
				e = an.Unparen(u.X)
			}
			var ex *ast.CallExpr
			if call, ok := e.(*ast.CallExpr); ok && an.IsCallTo(info, call, "(jet.Loader).Exists") {
				ex = call
			} else if id, ok := e.(*ast.Ident); ok {
				ex = okVars[an.ObjOf(info, id)]
			}
			if ex != nil && val && sig(ex) != "" {
				st.Set("exists:"+sig(ex), "1")
			}
		},
		Assign: func(x *an.Explorer, lhs, rhs ast.Expr, stmt ast.Node, st *an.State) {
			id, ok := an.Unparen(lhs).(*ast.Ident)
			if !ok {
				return
			}
			for k := range st.Regs {
				if strings.HasPrefix(k, "exists:") {
					parts := strings.SplitN(strings.TrimPrefix(k, "exists:"), "|", 2)
					if len(parts) == 2 && (mentions(parts[0], id.Name) || mentions(parts[1], id.Name)) {
						st.Set(k, "")
					}
				}
			}
		},
		Call: func(x *an.Explorer, call *ast.CallExpr, st *an.State) {
			if !an.IsCallTo(info, call, "(jet.Loader).Open") {
				return
			}
			if st.Get("exists:"+sig(call)) == "" && !bad.IsValid() {
				bad = call.Pos()
			}
		},
	})
	x.Run(nil)
	c.States += x.Visited
	key := f.Name + "/opens-what-exists"
	if x.Undecided != "" {
		c.Undecided("C19.multi", key, f.Pos(), "%s", x.Undecided)
		return
	}
	c.Check(!bad.IsValid(), "C19.multi", key, opens[0].Pos(), "a member loader is opened only after its Exists answered true for the same name",
		f.Name+" opens a member loader that was not asked (or did not confirm) that the template exists: the Open of a file-system loader also succeeds on a directory, so Exists and Open of the multi loader disagree and a later loader that has the template is hidden")
}

// mentions: identifier name occurs as a whole word in the rendered expression s.
func mentions(s, name string) bool {
	for i := 0; i+len(name) <= len(s); i++ {
		if s[i:i+len(name)] != name {
			continue
		}
		before := i == 0 || !isWordByte(s[i-1])
		after := i+len(name) == len(s) || !isWordByte(s[i+len(name)])
		if before && after {
			return true
		}
	}
	return false
}

func isWordByte(b byte) bool {
	return b == '_' || b >= '0' && b <= '9' || b >= 'a' && b <= 'z' || b >= 'A' && b <= 'Z'
}
