package rules

import (
	"fmt"
	"go/ast"
	"go/constant"
	"go/token"
	"go/types"
	"sort"
	"strings"

	"jetverif/an"
)

func init() {
	register(&Property{
		ID:  "C20",
		Run: runC20,
		Meta: an.Meta{
			Technique: "exhaustiveness, child-coverage and nil-belief lint over the type-checked AST of utils/visitor.go against node.go",
			Explanation: "Structural proof obligations on utils/visitor.go against the AST declared in node.go: (C20.cases) every exported node type the parser " +
				"constructs has a case in VisitorContext.Visit and only the default arm panics; (C20.fields) the helper selected for a type passes every child " +
				"field (Node/Expression/pointer-to-node/slices thereof/block parameters' expressions, incl. promoted fields and the unexported catch node's children) " +
				"to the visitor from exactly one call site that is unconditional, nil-guarded or inside a range over the slice; (C20.nil) a child field that package jet " +
				"itself believes nullable (compared with nil, or initialised from a nil argument/zero-valued local at a constructor call) is only visited under a " +
				"`!= nil` guard and never dereferenced unguarded; (C20.term) no helper hands the node it was called for back to the visitor; (C20.walk) Walk starts at t.Root. (C20.cases, continued) the parser's marker nodes (end, else, content, catch) are excluded on every path on which a parsed text-or-action node is appended to a list. (C20.walk, continued) every return of Walk lies behind the visit of t.Root and nothing of package jet looks at the tree first. (C20.cases, continued) no function of utils/visitor.go other than that default arm can panic explicitly. (C20.fields, continued) a child handed to VisitorContext.Visit (the dispatcher) instead of visitNode / Visitor.Visit is not counted as visited: the dispatcher descends into its children without showing the node to the visitor. (C20.cases, dispatch form) Visit is interpreted for every node type the parser constructs — type switches over the node, bool-valued dispatch helpers that receive the node, `return true/false`, ||, &&, !, if — and must end, for each type, in an arm naming the type and in a plain return; the panics of the dispatch are then unreachable for constructed types. (C20.fields, continued) a plain index walk `for i := 0; i < len(L); i++ { … L[i] … }` and a local holding a child list count like a range over the list. (C20.walk attached-once) in every parser function, a local node that was handed to a node constructor is not handed to one again unless the variable was assigned in between: the tree stays a tree when a variable outlives one pass of a parsing loop.",
			NotDecided: "that the parser builds trees only from these constructors is itself checked (node composite literals outside PARSE are reported); nothing else of substance.",
			Assumptions: []string{
				"a visitor descends by calling VisitorContext.Visit on the node it was given (the property's premise)",
				"nullability beliefs are taken from package jet's own nil comparisons and constructor call sites",
			},
			Trusted: commonTrusted,
		},
		Mutants: []Mutant{
			{Name: "stray catch accepted inside a list (original defect)", File: "parse.go", Old: "\t\tswitch n.Type() {\n\t\tcase nodeEnd, nodeElse, nodeContent, nodeCatch:\n\t\t\tt.errorf(\"unexpected %s\", n)\n\t\t}\n\t\tlist.append(n)", New: "\t\tlist.append(n)", Rule: "C20.cases"},
			{Name: "stray catch accepted at top level (original defect)", File: "parse.go", Old: "\t\tcase nodeEnd, nodeElse, nodeContent, nodeCatch:\n\t\t\tt.errorf(\"unexpected %s\", n)\n\t\tdefault:", New: "\t\tcase nodeEnd, nodeElse, nodeContent:\n\t\t\tt.errorf(\"unexpected %s\", n)\n\t\tdefault:", Rule: "C20.cases"},
			{Name: "nil test centralised in visitNode, typed-nil catch variable slips through (agent seed C20/1, reduced)", File: "utils/visitor.go", Old: "\t\tif tryNode.Catch.Err != nil {\n\t\t\tvc.visitNode(tryNode.Catch.Err)\n\t\t}\n", New: "\t\tvc.visitNode(tryNode.Catch.Err)\n", Rule: "C20.nil"},
			{Name: "equivalent: nil test centralised in visitNode for interface-typed children", File: "utils/visitor.go", Old: "func (vc VisitorContext) visitNode(node jet.Node) {\n", New: "func (vc VisitorContext) visitNode(node jet.Node) {\n\tif node == nil {\n\t\treturn\n\t}\n", Rule: "-"},
			{Name: "Set and Expression of a branch visited as alternatives (agent seed C20/2)", File: "utils/visitor.go", Old: "\tif branchNode.Set != nil {\n\t\tvc.visitNode(branchNode.Set)\n\t}\n\n\tif branchNode.Expression != nil {", New: "\tif branchNode.Set != nil {\n\t\tvc.visitNode(branchNode.Set)\n\t} else if branchNode.Expression != nil {", Rule: "C20.fields"},
			{Name: "remove the *jet.TryNode case", File: "utils/visitor.go", Old: "\tcase *jet.TryNode:\n\t\tvc.visitTryNode(node)\n", New: "", Rule: "C20.cases"},
			{Name: "remove the *jet.UnderscoreNode leaf case", File: "utils/visitor.go", Old: "\tcase *jet.UnderscoreNode:\n", New: "", Rule: "C20.cases"},
			{Name: "drop nil guard of AdditiveExprNode.Left", File: "utils/visitor.go", Old: "\tif additiveExprNode.Left != nil {\n\t\tvc.visitNode(additiveExprNode.Left)\n\t}\n", New: "\tvc.visitNode(additiveExprNode.Left)\n", Rule: "C20.nil"},
			{Name: "visit the include node itself", File: "utils/visitor.go", Old: "\tvc.visitNode(includeNode.Name)\n", New: "\tvc.visitNode(includeNode)\n", Rule: "C20.term"},
			{Name: "forget ElseList in visitBranchNode", File: "utils/visitor.go", Old: "\tif branchNode.ElseList != nil {\n\t\tvc.visitNode(branchNode.ElseList)\n\t}\n", New: "", Rule: "C20.fields"},
			{Name: "visit ternary Left twice", File: "utils/visitor.go", Old: "\tvc.visitNode(ternaryExprNode.Right)\n", New: "\tvc.visitNode(ternaryExprNode.Left)\n", Rule: "C20.fields"},
			{Name: "forget call arguments", File: "utils/visitor.go", Old: "\tvc.visitNode(callExprNode.BaseExpr)\n\tfor _, node := range callExprNode.Exprs {\n\t\tvc.visitNode(node)\n\t}\n", New: "\tvc.visitNode(callExprNode.BaseExpr)\n", Rule: "C20.fields"},
			{Name: "range stores the ranged-over expression both in Set and in Expression (agent seed C20/4)", File: "parse.go", Old: "\t\t} else {\n\t\t\texpression = nil\n\t\t}\n\t}\n\n\tt.expectRightDelim(context)", New: "\t\t} else {\n\t\t\texpression = set.Right[0]\n\t\t}\n\t}\n\n\tt.expectRightDelim(context)", Rule: "C20.walk"},
			{Name: "Walk starts at the first statement only", File: "utils/visitor.go", Old: "v.Visit(VisitorContext{Visitor: v}, t.Root)", New: "v.Visit(VisitorContext{Visitor: v}, t.Root.Nodes[0])", Rule: "C20.walk"},
			{Name: "new node type without visitor support", File: "node.go", Old: "type ReturnNode struct {", New: "type DebugNode struct {\n\tNodeBase\n\tValue Expression\n}\n\nfunc (n *DebugNode) String() string { return \"debug\" }\n\nfunc (t *Template) newDebug(v Expression) *DebugNode { return &DebugNode{Value: v} }\n\ntype ReturnNode struct {", Rule: "C20.cases"},
			{Name: "new child field without visitor support", File: "node.go", Old: "type ReturnNode struct {\n\tNodeBase\n\tValue Expression\n", New: "type ReturnNode struct {\n\tNodeBase\n\tValue Expression\n\tExtra Expression\n", Rule: "C20.fields"},
			{Name: "try body visited only when a catch clause exists (guard clause moved up)", File: "utils/visitor.go", Old: "\tvc.visitNode(tryNode.List)\n\tif tryNode.Catch != nil {", New: "\tif tryNode.Catch == nil {\n\t\treturn\n\t}\n\tvc.visitNode(tryNode.List)\n\tif tryNode.Catch != nil {", Rule: "C20.fields"},
			{Name: "catch list visited only when an error variable exists", File: "utils/visitor.go", Old: "\t\tif tryNode.Catch.List != nil {\n\t\t\tvc.visitNode(tryNode.Catch.List)\n\t\t}\n", New: "\t\tif tryNode.Catch.Err != nil && tryNode.Catch.List != nil {\n\t\t\tvc.visitNode(tryNode.Catch.List)\n\t\t}\n", Rule: "C20.fields"},
		},
	})
}

// child is one child position of a node struct, e.g. "Set", "Exprs[]", "Parameters.List[].Expression", "Catch.Err".
type child struct {
	path     string
	field    *types.Var // the field object of the last real field on the path
	owner    string     // struct type declaring `field`
	nullable string     // reason, "" if not believed nullable
}

type c20 struct {
	c        *an.Ctx
	p        *an.Prog
	nodeIf   *types.Interface
	nullable map[string]string // "Type.field" → reason
	// visitNode itself starts with `if node == nil { return }`
	centralGuard bool
}

func runC20(c *an.Ctx) {
	c20freshNodes(c)
	p := c.P
	r := &c20{c: c, p: p, nodeIf: p.Iface("", "Node"), nullable: map[string]string{}}
	if r.nodeIf == nil {
		c.Anchor("C20.cases", "interface jet.Node")
		return
	}
	if p.Utils == nil {
		c.Anchor("C20.cases", "package utils")
		return
	}
	visit := c.Fn("C20.cases", "utils.(VisitorContext).Visit")
	walk := c.Fn("C20.walk", "utils.Walk")
	if visit == nil || walk == nil {
		return
	}
	r.beliefs()
	if vn := p.Fn("utils.(VisitorContext).visitNode"); vn != nil && len(vn.Body.List) > 0 {
		if is, ok := vn.Body.List[0].(*ast.IfStmt); ok && is.Init == nil && len(is.Body.List) == 1 {
			if _, isRet := is.Body.List[0].(*ast.ReturnStmt); isRet {
				if b, ok := an.Unparen(is.Cond).(*ast.BinaryExpr); ok && b.Op == token.EQL && an.Str(b.Y) == "nil" {
					if id, ok := an.Unparen(b.X).(*ast.Ident); ok && an.ObjOf(vn.Info(), id) == types.Object(an.Param(vn, 0)) {
						r.centralGuard = true
					}
				}
			}
		}
	}

	// ---- the node types the parser constructs
	parse := p.Parse()
	constructed := map[*types.Named]token.Pos{}
	for _, f := range p.Units() {
		if f.Pkg != p.Jet || f.Body == nil {
			continue
		}
		an.InspectOwn(f, func(n ast.Node) bool {
			u, ok := n.(*ast.UnaryExpr)
			if !ok || u.Op != token.AND {
				return true
			}
			cl, ok := an.Unparen(u.X).(*ast.CompositeLit)
			if !ok {
				return true
			}
			named := an.NamedOf(f.Info().Types[cl].Type)
			if named == nil || !r.isNodeStruct(named) {
				return true
			}
			if !parse[f] {
				c.Bad("C20.cases", "construct:"+named.Obj().Name()+"@"+f.Name, cl.Pos(), nil,
					"node type %s is constructed outside the parser (in %s): the visitor's exhaustiveness argument assumes trees are built only by the parser", named.Obj().Name(), f.Name)
				return true
			}
			if _, seen := constructed[named]; !seen {
				constructed[named] = cl.Pos()
			}
			return true
		})
	}
	c.Expect("C20.cases", "node types constructed by the parser", len(constructed), 30)

	// ---- the cases of Visit's dispatch.  Visit is interpreted for each node type the parser constructs: type switches
	// over the node select the arm naming the type (or the default arm), calls of bool-valued dispatch helpers of the
	// package that receive the node are interpreted in turn, `return true/false`, `||`, `&&`, `!` and `if` over such
	// calls are evaluated; everything else a case does is left to C20.fields.  The type must end in an arm that names
	// it, and the interpretation must end in a return, not in the panic that reports an unexpected node.
	uinfo := p.Utils.TypesInfo
	cases := map[*types.Named]*ast.CaseClause{}
	dispatchFns := map[*an.Fn]bool{visit: true}
	outcome := map[*types.Named]string{}
	var allNamed []*types.Named
	for n := range constructed {
		allNamed = append(allNamed, n)
	}
	sort.Slice(allNamed, func(i, j int) bool { return allNamed[i].Obj().Name() < allNamed[j].Obj().Name() })
	for _, named := range allNamed {
		d := &c20dispatch{p: p, info: uinfo, target: named, fns: dispatchFns}
		ctrl, _ := d.run(visit, an.Param(visit, 0), 0)
		outcome[named] = ctrl
		if d.arm != nil {
			cases[named] = d.arm
		}
	}
	// arms must not panic
	seenArm := map[*ast.CaseClause]bool{}
	for _, cc := range cases {
		if seenArm[cc] {
			continue
		}
		seenArm[cc] = true
		ast.Inspect(cc, func(n ast.Node) bool {
			if call, ok := n.(*ast.CallExpr); ok && an.IsCallTo(uinfo, call, "builtin.panic") {
				c.Bad("C20.cases", "case-panics:"+an.Str(cc.List[0]), call.Pos(), nil, "a case of Visit panics")
			}
			return true
		})
	}

	// … and nothing else in package utils panics: the helpers the cases delegate to raise nothing of their
	// own (a depth limit, a "cannot happen" check) for a tree the parser accepted.  The panics of the dispatch
	// itself (Visit and the bool-valued helpers it is split into) are the report of an unexpected node: the
	// interpretation above shows that no constructed type reaches them.
	nPanic := 0
	for _, g := range p.Units() {
		if g.Pkg != p.Utils || g.Body == nil {
			continue
		}
		for _, call := range p.CallsIn(g, "builtin.panic") {
			nPanic++
			if !dispatchFns[g] && !dispatchFns[g.Root()] {
				c.Bad("C20.cases", g.Name+"/panics", call.Pos(), nil, "%s panics (%s): the walk of a template the parser accepted can end in a panic", g.Name, an.Str(call))
			}
		}
	}
	c.Note("panic calls in package utils: %d (the report of an unexpected node in Visit's dispatch)", nPanic)
	if nPanic == 0 {
		c.Note("Visit's dispatch has no panic: an unknown node type is skipped silently")
	}

	var names []*types.Named
	for n := range constructed {
		names = append(names, n)
	}
	sort.Slice(names, func(i, j int) bool { return names[i].Obj().Name() < names[j].Obj().Name() })
	nExported := 0
	for _, named := range names {
		name := named.Obj().Name()
		switch {
		case !named.Obj().Exported():
			c.Note("unexported node type %s cannot be named by package utils; it must be covered through its parent's helper (C20.fields) or never be appended to a tree", name)
			continue
		case name == "BlockParameterList":
			c.Note("BlockParameterList is held only in *BlockParameterList fields; its parameters' expressions are child positions of the owning node (C20.fields)")
			continue
		}
		nExported++
		cc := cases[named]
		if cc == nil {
			c.Bad("C20.cases", "type:"+name, constructed[named], nil,
				"node type *jet.%s is built by the parser but VisitorContext.Visit has no case for it: Walk panics (\"unexpected node\") on any template containing it", name)
			continue
		}
		if outcome[named] != "return" {
			c.Bad("C20.cases", "type:"+name, cc.Pos(), nil, "Visit has a case for *jet.%s, but its dispatch does not end in a plain return for that type (%s): Walk panics or the outcome cannot be followed", name, outcome[named])
			continue
		}
		c.OK("C20.cases", "type:"+name, cc.Pos(), "case *jet.%s present", name)
		r.checkCase(named, cc)
	}
	c.Expect("C20.cases", "exported node types requiring a case", nExported, 28)

	// ---- C20.walk
	// rootVisit: the call hands t.Root to the visitor — Visitor.Visit(ctx, t.Root), or visitNode(t.Root) on a context
	// built around Walk's own visitor (visitNode being the helper that shows a node to the visitor)
	visitNodeShows := false
	if vn := p.Fn("utils.(VisitorContext).visitNode"); vn != nil && vn.Body != nil {
		for _, call := range p.CallsIn(vn, "(utils.Visitor).Visit") {
			if len(call.Args) == 2 {
				if id, ok := an.Unparen(call.Args[1]).(*ast.Ident); ok && isParam(vn, vn.Info(), id) {
					visitNodeShows = true
				}
			}
		}
	}
	rootVisit := func(call *ast.CallExpr) bool {
		switch an.CalleeName(uinfo, call) {
		case "(utils.Visitor).Visit":
			return len(call.Args) == 2 && p.FieldKey(uinfo, call.Args[1]) == "Template.Root"
		case "(utils.VisitorContext).visitNode":
			if !visitNodeShows || len(call.Args) != 1 || p.FieldKey(uinfo, call.Args[0]) != "Template.Root" {
				return false
			}
			// the receiver: VisitorContext{Visitor: <Walk's visitor parameter>} (directly or through a local)
			recv := an.Unparen(an.Receiver(call))
			if id, ok := recv.(*ast.Ident); ok {
				if defs := an.LocalDefs(walk, an.ObjOf(uinfo, id)); len(defs) == 1 && defs[0] != nil {
					recv = an.Unparen(defs[0])
				}
			}
			cl, ok := recv.(*ast.CompositeLit)
			if !ok {
				return false
			}
			for _, el := range cl.Elts {
				if kv, ok := el.(*ast.KeyValueExpr); ok {
					if k, ok := kv.Key.(*ast.Ident); ok && k.Name == "Visitor" {
						if id, ok := an.Unparen(kv.Value).(*ast.Ident); ok && isParam(walk, uinfo, id) {
							return true
						}
					}
				}
			}
		}
		return false
	}
	okWalk := false
	an.InspectOwn(walk, func(n ast.Node) bool {
		if call, ok := n.(*ast.CallExpr); ok && rootVisit(call) {
			if id := an.RootIdent(call.Args[len(call.Args)-1]); id != nil && isParam(walk, uinfo, id) {
				okWalk = true
			}
		}
		return true
	})
	an.InspectOwn(walk, func(n ast.Node) bool {
		call, ok := n.(*ast.CallExpr)
		if !ok {
			return true
		}
		if an.CalleeName(uinfo, call) == "(utils.Visitor).Visit" && len(call.Args) == 2 {
			if key := p.FieldKey(uinfo, call.Args[1]); key == "Template.Root" {
				if id := an.RootIdent(call.Args[1]); id != nil && isParam(walk, uinfo, id) {
					okWalk = true
				}
			}
		}
		return true
	})
	// … on every path: no return of Walk is reached without that call, and nothing that can panic on a
	// parsed tree is consulted first (a function of package jet called with the tree before the visit)
	{
		wx := p.NewExplorer(walk, an.Hooks{Call: func(x *an.Explorer, call *ast.CallExpr, st *an.State) {
			name := an.CalleeName(uinfo, call)
			if rootVisit(call) {
				st.Set("visited", "1")
				return
			}
			if st.Get("visited") == "" && strings.HasPrefix(name, "jet.") {
				st.Set("consulted", name)
			}
		}})
		wx.Run(nil)
		c.States += wx.Visited
		always, nRet, consulted := true, 0, ""
		for _, ex := range wx.Exits {
			if ex.Kind != an.ExitReturn {
				continue
			}
			nRet++
			if ex.State.Get("visited") == "" {
				always = false
			}
			if v := ex.State.Get("consulted"); v != "" {
				consulted = v
			}
		}
		switch {
		case wx.Undecided != "" || nRet == 0:
			c.Undecided("C20.walk", "utils.Walk/always", walk.Pos(), "the paths of Walk could not be explored (%s)", wx.Undecided)
		case !always:
			c.Bad("C20.walk", "utils.Walk/always", walk.Pos(), nil, "Walk can return without handing t.Root to the visitor: the nodes of such a template are never visited")
		case consulted != "":
			c.Bad("C20.walk", "utils.Walk/always", walk.Pos(), nil, "Walk consults %s on the tree before the traversal: a helper that does not know every node type panics for templates the parser accepts", consulted)
		default:
			c.OK("C20.walk", "utils.Walk/always", walk.Pos(), "every path through Walk hands t.Root to the visitor, and nothing else looks at the tree first")
		}
	}
	c20noShare(c)
	c20attachedOnce(c)
	c20markers(c)
	c.Check(okWalk, "C20.walk", "utils.Walk/start", walk.Pos(), "Walk hands t.Root to Visitor.Visit", "Walk does not start the traversal at t.Root through Visitor.Visit")
}

func isParam(f *an.Fn, info *types.Info, id *ast.Ident) bool {
	o := an.ObjOf(info, id)
	if o == nil || f.Sig == nil {
		return false
	}
	for i := 0; i < f.Sig.Params().Len(); i++ {
		if f.Sig.Params().At(i) == o {
			return true
		}
	}
	if f.Sig.Recv() == o {
		return true
	}
	return false
}

func (r *c20) isNodeStruct(n *types.Named) bool {
	if n.Obj().Pkg() == nil || n.Obj().Pkg().Path() != an.JetPath {
		return false
	}
	if _, ok := n.Underlying().(*types.Struct); !ok {
		return false
	}
	return an.ImplementsIface(n, r.nodeIf)
}

// isChildType classifies a field type: 0 no child, 1 single node, 2 slice of nodes, 3 *BlockParameterList, 4 pointer to an unexported node struct (descend)
func (r *c20) childKind(t types.Type) int {
	switch u := t.(type) {
	case *types.Slice:
		if k := r.childKind(u.Elem()); k == 1 || k == 4 {
			return 2
		}
		return 0
	case *types.Pointer:
		if n, ok := u.Elem().(*types.Named); ok && r.isNodeStruct(n) {
			if n.Obj().Name() == "BlockParameterList" {
				return 3
			}
			if !n.Obj().Exported() {
				return 4
			}
			return 1
		}
		return 0
	case *types.Named:
		if _, ok := u.Underlying().(*types.Interface); ok && an.ImplementsIface(u, r.nodeIf) {
			return 1
		}
		if iface, ok := u.Underlying().(*types.Interface); ok && types.Identical(iface, r.nodeIf) {
			return 1
		}
	}
	return 0
}

// children enumerates the child positions of a node struct (promoted fields flattened).
func (r *c20) children(n *types.Named, prefix string, outer string) []child {
	st, ok := n.Underlying().(*types.Struct)
	if !ok {
		return nil
	}
	var out []child
	for i := 0; i < st.NumFields(); i++ {
		f := st.Field(i)
		if f.Embedded() {
			if en := an.NamedOf(f.Type()); en != nil && en.Obj().Name() != "NodeBase" {
				if _, isStruct := en.Underlying().(*types.Struct); isStruct {
					out = append(out, r.children(en, prefix, outer)...)
				}
			}
			continue
		}
		owner := n.Obj().Name()
		mk := func(path string) child {
			ch := child{path: path, field: f, owner: owner}
			for _, k := range []string{outer + "." + f.Name(), owner + "." + f.Name()} {
				if why, ok := r.nullable[k]; ok {
					ch.nullable = why
					break
				}
			}
			return ch
		}
		switch r.childKind(f.Type()) {
		case 1:
			out = append(out, mk(prefix+f.Name()))
		case 2:
			out = append(out, mk(prefix+f.Name()+"[]"))
		case 3:
			ch := mk(prefix + f.Name() + ".List[].Expression")
			// the guard needed is on the container pointer; the Expression itself is nullable by declaration (no default value)
			out = append(out, ch)
		case 4:
			inner := an.NamedOf(f.Type())
			sub := r.children(inner, prefix+f.Name()+".", inner.Obj().Name())
			cont := mk(prefix + f.Name())
			for i := range sub {
				if sub[i].nullable == "" && cont.nullable != "" {
					// reaching the inner field dereferences the (nullable) container
				}
			}
			out = append(out, sub...)
		}
	}
	return out
}

// beliefs collects the (Type.field) pairs package jet itself treats as possibly nil.
func (r *c20) beliefs() {
	p := r.p
	info := p.Jet.TypesInfo
	note := func(outer *types.Named, fv *types.Var, why string) {
		if outer == nil || fv == nil {
			return
		}
		k := outer.Obj().Name() + "." + an.RoleOf(fv)
		if _, ok := r.nullable[k]; !ok {
			r.nullable[k] = why
		}
	}
	// (a) comparisons X.f == nil / != nil.  A test `if X.f == nil { <no-return> }` is a validation
	// (it establishes that the field is non-nil in every tree that survives), not a nullability belief.
	for _, f := range p.Units() {
		if f.Pkg != p.Jet || f.Body == nil {
			continue
		}
		validation := map[ast.Expr]bool{}
		ast.Inspect(f.Body, func(n ast.Node) bool {
			is, ok := n.(*ast.IfStmt)
			if !ok || len(is.Body.List) == 0 {
				return true
			}
			b, ok := an.Unparen(is.Cond).(*ast.BinaryExpr)
			if !ok || b.Op != token.EQL {
				return true
			}
			if es, ok := is.Body.List[len(is.Body.List)-1].(*ast.ExprStmt); ok {
				if call, ok := es.X.(*ast.CallExpr); ok && p.CallNeverReturns(info, call) {
					validation[b] = true
				}
			}
			return true
		})
		ast.Inspect(f.Body, func(n ast.Node) bool {
			b, ok := n.(*ast.BinaryExpr)
			if !ok || (b.Op != token.EQL && b.Op != token.NEQ) || validation[b] {
				return true
			}
			for _, pr := range [][2]ast.Expr{{b.X, b.Y}, {b.Y, b.X}} {
				if id, ok := an.Unparen(pr[1]).(*ast.Ident); !ok || id.Name != "nil" {
					continue
				}
				sel, ok := an.Unparen(pr[0]).(*ast.SelectorExpr)
				if !ok {
					continue
				}
				fv := an.FieldOf(info, sel)
				if fv == nil {
					continue
				}
				outer := an.NamedOf(info.Types[sel.X].Type)
				if outer != nil && r.isNodeStruct(outer) {
					note(outer, fv, fmt.Sprintf("compared with nil in %s (%s)", f.Name, p.RelPos(b.Pos())))
				}
			}
			return true
		})
	}
	// (b) constructor call sites passing nil / a zero-valued local for a parameter that initialises a field
	for _, ctor := range p.Units() {
		if ctor.Pkg != p.Jet || ctor.Decl == nil || ctor.Sig == nil {
			continue
		}
		// which parameter initialises which field of which node type
		type init struct {
			outer *types.Named
			fv    *types.Var
		}
		paramField := map[*types.Var][]init{}
		an.InspectOwn(ctor, func(n ast.Node) bool {
			cl, ok := n.(*ast.CompositeLit)
			if !ok {
				return true
			}
			named := an.NamedOf(info.Types[cl].Type)
			if named == nil {
				return true
			}
			for _, el := range cl.Elts {
				kv, ok := el.(*ast.KeyValueExpr)
				if !ok {
					continue
				}
				kid, ok := kv.Key.(*ast.Ident)
				if !ok {
					continue
				}
				vid, ok := an.Unparen(kv.Value).(*ast.Ident)
				if !ok {
					continue
				}
				pv, ok := an.ObjOf(info, vid).(*types.Var)
				if !ok {
					continue
				}
				fv, _ := an.ObjOf(info, kid).(*types.Var)
				if fv == nil || !fv.IsField() {
					continue
				}
				paramField[pv] = append(paramField[pv], init{named, fv})
			}
			return true
		})
		if len(paramField) == 0 {
			continue
		}
		// outer type: the node struct the constructor returns
		var ret *types.Named
		if ctor.Sig.Results().Len() > 0 {
			ret = an.NamedOf(ctor.Sig.Results().At(0).Type())
		}
		if ret == nil || !r.isNodeStruct(ret) {
			continue
		}
		for _, caller := range p.Units() {
			if caller.Pkg != p.Jet || caller.Body == nil {
				continue
			}
			ast.Inspect(caller.Body, func(n ast.Node) bool {
				call, ok := n.(*ast.CallExpr)
				if !ok || an.Callee(info, call) != ctor.Obj {
					return true
				}
				// arguments may be a multi-value call (newIf(t.parseControl(...)))
				if len(call.Args) != ctor.Sig.Params().Len() {
					return true
				}
				for i, a := range call.Args {
					pv := ctor.Sig.Params().At(i)
					inits := paramField[pv]
					if len(inits) == 0 {
						continue
					}
					why := ""
					if id, ok := an.Unparen(a).(*ast.Ident); ok {
						if id.Name == "nil" {
							why = fmt.Sprintf("literal nil passed by %s (%s)", caller.Name, p.RelPos(a.Pos()))
						}
					}
					if why == "" {
						continue
					}
					for _, in := range inits {
						note(ret, in.fv, why)
					}
				}
				return true
			})
		}
	}
	// (c) results of parseControl feed newIf/newRange positionally: set, expression, elseList are zero-valued named results
	if pc := p.Fn("(*Template).parseControl"); pc != nil && pc.Sig != nil {
		for _, ctorName := range []string{"(*Template).newIf", "(*Template).newRange"} {
			ctor := p.Fn(ctorName)
			if ctor == nil || ctor.Sig == nil || ctor.Sig.Params().Len() != pc.Sig.Results().Len() {
				continue
			}
			ret := an.NamedOf(ctor.Sig.Results().At(0).Type())
			an.InspectOwn(ctor, func(n ast.Node) bool {
				kv, ok := n.(*ast.KeyValueExpr)
				if !ok {
					return true
				}
				vid, ok := an.Unparen(kv.Value).(*ast.Ident)
				if !ok {
					return true
				}
				pv, _ := an.ObjOf(info, vid).(*types.Var)
				kid, _ := kv.Key.(*ast.Ident)
				if pv == nil || kid == nil {
					return true
				}
				fv, _ := an.ObjOf(info, kid).(*types.Var)
				for i := 0; i < ctor.Sig.Params().Len(); i++ {
					if ctor.Sig.Params().At(i) != pv {
						continue
					}
					res := pc.Sig.Results().At(i)
					if _, isPtrOrIface := res.Type().Underlying().(*types.Basic); isPtrOrIface {
						continue
					}
					if assignedNilOrConditionally(pc, info, res) {
						note(ret, fv, fmt.Sprintf("named result %q of parseControl is nil on some path", res.Name()))
					}
				}
				return true
			})
		}
	}
}

// assignedNilOrConditionally: a named result that is explicitly assigned nil somewhere, or assigned only inside conditionals.
func assignedNilOrConditionally(f *an.Fn, info *types.Info, res *types.Var) bool {
	nilAssigned, topLevel := false, false
	for _, s := range f.Body.List {
		as, ok := s.(*ast.AssignStmt)
		if !ok {
			continue
		}
		for i, l := range as.Lhs {
			if id, ok := l.(*ast.Ident); ok && an.ObjOf(info, id) == res {
				topLevel = true
				if len(as.Rhs) == len(as.Lhs) {
					if rid, ok := as.Rhs[i].(*ast.Ident); ok && rid.Name == "nil" {
						nilAssigned = true
					}
				}
			}
		}
	}
	ast.Inspect(f.Body, func(n ast.Node) bool {
		as, ok := n.(*ast.AssignStmt)
		if !ok || len(as.Rhs) != len(as.Lhs) {
			return true
		}
		for i, l := range as.Lhs {
			if id, ok := l.(*ast.Ident); ok && an.ObjOf(info, id) == res {
				if rid, ok := as.Rhs[i].(*ast.Ident); ok && rid.Name == "nil" {
					nilAssigned = true
				}
			}
		}
		return true
	})
	return nilAssigned || !topLevel
}

// visitCall is one call that hands a node to the visitor.
type visitCall struct {
	path     string // normalised child path relative to the helper's node parameter; "" = the node itself
	call     *ast.CallExpr
	guards   []string // child paths tested != nil on the way
	badCtx   string   // non-empty when the call is under a construct that is neither a nil guard nor the range over its slice
	inHelper *an.Fn
}

func (r *c20) checkCase(named *types.Named, cc *ast.CaseClause) {
	c, p := r.c, r.p
	name := named.Obj().Name()
	uinfo := p.Utils.TypesInfo
	kids := r.children(named, "", name)

	// which helper does the case call?
	var helper *an.Fn
	var helperCall *ast.CallExpr
	for _, s := range cc.Body {
		ast.Inspect(s, func(n ast.Node) bool {
			if call, ok := n.(*ast.CallExpr); ok && helper == nil {
				if f := p.FnByObj[an.Callee(uinfo, call)]; f != nil && f.Pkg == p.Utils {
					helper, helperCall = f, call
				}
			}
			return true
		})
	}
	if helper == nil {
		if len(cc.Body) != 0 {
			c.Bad("C20.fields", name+"/helper", cc.Pos(), nil, "case *jet.%s has a body but calls no helper of package utils", name)
			return
		}
		if len(kids) > 0 {
			var ks []string
			for _, k := range kids {
				ks = append(ks, k.path)
			}
			c.Bad("C20.fields", name+"/leaf", cc.Pos(), nil, "*jet.%s is treated as a leaf but has child positions %v that are never visited", name, ks)
		} else {
			c.OK("C20.fields", name+"/leaf", cc.Pos(), "leaf type without child positions")
		}
		return
	}
	// the case may do the helper's work itself (a one-statement helper inlined into the switch): then the case body
	// is the helper and the variable the type switch binds is its parameter
	if iv, ok := uinfo.Implicits[cc].(*types.Var); ok {
		delegates := false
		if len(cc.Body) == 1 && len(helperCall.Args) == 1 {
			if es, ok := cc.Body[0].(*ast.ExprStmt); ok && an.Unparen(es.X) == ast.Expr(helperCall) {
				if id, ok := an.Unparen(helperCall.Args[0]).(*ast.Ident); ok && an.ObjOf(uinfo, id) == types.Object(iv) {
					delegates = true
				}
			}
		}
		if !delegates {
			body := &ast.BlockStmt{Lbrace: cc.Colon, List: cc.Body, Rbrace: cc.End()}
			helper = &an.Fn{P: p, Name: "utils.(VisitorContext).Visit/case *jet." + name, Pkg: p.Utils, Body: body,
				Lit: &ast.FuncLit{Type: &ast.FuncType{Func: cc.Pos()}, Body: body},
				Sig: types.NewSignatureType(nil, nil, nil, types.NewTuple(iv), nil, false)}
		}
	}
	c.FnsAnalysed[helper.Name] = true
	if len(helperCall.Args) != 1 {
		c.Bad("C20.fields", name+"/helper", helperCall.Pos(), nil, "unexpected helper call shape")
		return
	}
	calls := r.collect(helper, "", nil, map[*an.Fn]bool{})
	c.CallSites += len(calls)

	byPath := map[string][]visitCall{}
	for _, vc := range calls {
		byPath[vc.path] = append(byPath[vc.path], vc)
	}
	// C20.term: the node itself must not be handed back
	if self := byPath[""]; len(self) > 0 {
		c.Bad("C20.term", name+"/self-visit", self[0].call.Pos(), nil,
			"%s hands the %s it was called for back to the visitor: a descending visitor recurses without bound", self[0].inHelper.Name, name)
	} else {
		c.OK("C20.term", name+"/self-visit", helper.Pos(), "helper never re-visits its own node")
	}
	known := map[string]bool{"": true}
	for _, k := range kids {
		known[k.path] = true
		vcs := byPath[k.path]
		key := name + "/" + k.path
		switch {
		case len(vcs) == 0:
			c.Bad("C20.fields", key, helper.Pos(), nil, "child %s.%s is never handed to the visitor by %s: nodes below it are not reached", name, k.path, helper.Name)
			continue
		case len(vcs) > 1:
			c.Bad("C20.fields", key, vcs[1].call.Pos(), nil, "child %s.%s is handed to the visitor from %d call sites: visited more than once", name, k.path, len(vcs))
			continue
		}
		vc := vcs[0]
		if vc.badCtx != "" {
			c.Bad("C20.fields", key, vc.call.Pos(), nil, "child %s.%s is visited only conditionally (%s): not every node is reached", name, k.path, vc.badCtx)
			continue
		}
		c.OK("C20.fields", key, vc.call.Pos(), "visited exactly once by %s", vc.inHelper.Name)

		// C20.nil: every nullable prefix of the path must be guarded
		for _, need := range r.nullablePrefixes(named, k) {
			guarded := false
			// a nil test at the top of visitNode covers interface-typed children handed to it directly
			// (a nil *T stored in the interface is not caught by it and still needs its own guard)
			if r.centralGuard && need.path == k.path && an.CalleeName(vc.inHelper.Info(), vc.call) == "(utils.VisitorContext).visitNode" {
				if _, isIface := k.field.Type().Underlying().(*types.Interface); isIface {
					guarded = true
				}
			}
			for _, g := range vc.guards {
				if g == need.path {
					guarded = true
				}
			}
			nk := name + "/" + need.path
			if need.path != k.path {
				nk = name + "/" + k.path + "@" + need.path
			}
			if guarded {
				c.OK("C20.nil", nk, vc.call.Pos(), "nullable %s is visited under a != nil guard", need.path)
			} else {
				c.Bad("C20.nil", nk, vc.call.Pos(), nil,
					"%s.%s can be nil (%s) but %s passes/dereferences it without a nil test: the visitor receives a nil node or panics", name, need.path, need.why, vc.inHelper.Name)
			}
		}
	}
	for path, vcs := range byPath {
		if !known[path] {
			c.Bad("C20.fields", name+"/"+path, vcs[0].call.Pos(), nil, "helper visits %q which is not a child position of %s", path, name)
		}
	}
}

type need struct{ path, why string }

// nullablePrefixes: the container prefixes of a child path (and the path itself) that jet believes nullable.
func (r *c20) nullablePrefixes(named *types.Named, k child) []need {
	var out []need
	name := named.Obj().Name()
	// walk the path segments against the struct types
	segs := strings.Split(k.path, ".")
	cur := named
	prefix := ""
	for i, seg := range segs {
		fieldName := strings.TrimSuffix(seg, "[]")
		if cur == nil {
			break
		}
		fv := an.Field(cur, fieldName)
		if fv == nil {
			break
		}
		full := prefix + fieldName
		outerName := cur.Obj().Name()
		if i == 0 {
			outerName = name
		}
		why, isNullable := r.nullable[outerName+"."+fieldName]
		if !isNullable {
			// declared-owner form (e.g. BranchNode.ElseList believed through IfNode.ElseList)
			for k2, w := range r.nullable {
				parts := strings.SplitN(k2, ".", 2)
				if parts[1] != fieldName {
					continue
				}
				if t := r.p.LookupType(r.p.Jet, parts[0]); t != nil && an.Field(t, fieldName) == fv && (parts[0] == name || embeds(named, t) || embeds(t, cur)) {
					why, isNullable = w, true
					break
				}
			}
		}
		// block parameter expressions: nullable when the declaration has no default
		if fieldName == "Expression" && i > 0 && strings.HasSuffix(segs[i-1], "[]") {
			why, isNullable = "a block parameter without default value has a nil Expression (parse.go blockParametersList)", true
		}
		if isNullable && !strings.HasSuffix(seg, "[]") { // ranging over a nil slice is harmless
			out = append(out, need{full, why})
		}
		prefix = full + "."
		if strings.HasSuffix(seg, "[]") {
			prefix = full + "[]."
			if sl, ok := fv.Type().(*types.Slice); ok {
				cur = an.NamedOf(sl.Elem())
				continue
			}
		}
		cur = an.NamedOf(fv.Type())
	}
	return out
}

func embeds(outer, inner *types.Named) bool {
	st, ok := outer.Underlying().(*types.Struct)
	if !ok {
		return false
	}
	for i := 0; i < st.NumFields(); i++ {
		f := st.Field(i)
		if f.Embedded() {
			if n := an.NamedOf(f.Type()); n != nil && (n == inner || embeds(n, inner)) {
				return true
			}
		}
	}
	return outer == inner
}

// collect gathers the visitor calls of helper h, whose node parameter corresponds to child path
// `prefix` of the case's node; delegation to other helpers is followed.
func (r *c20) collect(h *an.Fn, prefix string, guards []string, seen map[*an.Fn]bool) []visitCall {
	if seen[h] || h.Sig == nil || h.Sig.Params().Len() != 1 {
		return nil
	}
	seen[h] = true
	defer delete(seen, h)
	r.c.FnsAnalysed[h.Name] = true
	info := h.Info()
	param := h.Sig.Params().At(0)

	// range variables: ident object → path of the element
	rangeVar := map[types.Object]string{}
	rangeOf := map[types.Object]*ast.RangeStmt{}
	indexVar := map[types.Object]string{} // index variable of a plain walk over a child list → path of the list
	aliasBusy := map[types.Object]bool{}
	var out []visitCall

	// pathOf maps an argument expression to a child path (relative to the case's node), ok=false if unrelated
	var pathOf func(e ast.Expr) (string, bool)
	pathOf = func(e ast.Expr) (string, bool) {
		switch x := an.Unparen(e).(type) {
		case *ast.Ident:
			o := an.ObjOf(info, x)
			if o == param {
				return strings.TrimSuffix(prefix, "."), true
			}
			if pth, ok := rangeVar[o]; ok {
				return pth, true
			}
			// a local that only holds a child (nodes := listNode.Nodes)
			if v, isVar := o.(*types.Var); isVar && !v.IsField() && v != param && !aliasBusy[o] {
				if defs := an.LocalDefs(h, v); len(defs) == 1 && defs[0] != nil {
					aliasBusy[o] = true
					defer delete(aliasBusy, o)
					return pathOf(defs[0])
				}
			}
		case *ast.IndexExpr:
			// list[i] inside `for i := 0; i < len(list); i++`
			if id, ok := an.Unparen(x.Index).(*ast.Ident); ok {
				if lp, isIdx := indexVar[an.ObjOf(info, id)]; isIdx {
					if pth, ok := pathOf(x.X); ok && pth == lp {
						return pth + "[]", true
					}
				}
			}
		case *ast.UnaryExpr:
			if x.Op == token.AND {
				return pathOf(x.X)
			}
		case *ast.SelectorExpr:
			base, ok := pathOf(x.X)
			if !ok {
				return "", false
			}
			fv := an.FieldOf(info, x)
			if fv == nil {
				return "", false
			}
			if fv.Embedded() {
				return base, true // promoted access through an embedded struct: flattened
			}
			if base == "" {
				return x.Sel.Name, true
			}
			return base + "." + x.Sel.Name, true
		}
		return "", false
	}

	// guardClause: `if <child path> == nil { return }` without else
	guardClauses := map[ast.Stmt]bool{}
	var earlyNil []string
	guardClause := func(st ast.Stmt) (string, bool) {
		is, ok := st.(*ast.IfStmt)
		if !ok || is.Init != nil || is.Else != nil || len(is.Body.List) != 1 {
			return "", false
		}
		switch leave := is.Body.List[0].(type) {
		case *ast.ReturnStmt:
			if len(leave.Results) != 0 {
				return "", false
			}
		case *ast.BranchStmt:
			// `if x.F == nil { continue }` in a loop body protects the rest of the body in the same way
			if leave.Tok != token.CONTINUE || leave.Label != nil {
				return "", false
			}
		default:
			return "", false
		}
		b, ok := an.Unparen(is.Cond).(*ast.BinaryExpr)
		if !ok || b.Op != token.EQL {
			return "", false
		}
		if tv, ok := info.Types[b.Y]; !ok || !tv.IsNil() {
			return "", false
		}
		return pathOf(b.X)
	}
	// outside reports the guard clause that makes a visit of pth conditional, if any
	outside := func(pth string) string {
		for _, g := range earlyNil {
			if pth != g && !strings.HasPrefix(pth, g+".") && !strings.HasPrefix(pth, g+"[]") {
				return fmt.Sprintf("only when %s is not nil (early return before it)", g)
			}
		}
		return ""
	}
	var walk func(n ast.Node, guards []string, bad string)
	walk = func(n ast.Node, guards []string, bad string) {
		switch s := n.(type) {
		case nil:
			return
		case *ast.BlockStmt:
			// a guard clause `if x.F == nil { return }` protects the rest of the block exactly like an
			// enclosing `if x.F != nil { … }`; visits of anything outside x.F after it are conditional
			nEarly := len(earlyNil)
			for _, st := range s.List {
				if g, ok := guardClause(st); ok {
					guardClauses[st] = true
					guards = append(append([]string{}, guards...), g)
					earlyNil = append(earlyNil, g)
					continue
				}
				walk(st, guards, bad)
			}
			earlyNil = earlyNil[:nEarly]
		case *ast.IfStmt:
			g, isGuard := "", false
			if s.Init == nil {
				if b, ok := an.Unparen(s.Cond).(*ast.BinaryExpr); ok && b.Op == token.NEQ {
					if id, ok := an.Unparen(b.Y).(*ast.Ident); ok && id.Name == "nil" {
						if pth, ok := pathOf(b.X); ok {
							g, isGuard = pth, true
						}
					}
				}
			}
			if isGuard {
				walk(s.Body, append(append([]string{}, guards...), g), bad)
				if s.Else != nil {
					walk(s.Else, guards, "in the else branch of a nil test")
				}
			} else {
				why := fmt.Sprintf("under `if %s`", an.Str(s.Cond))
				walk(s.Body, guards, why)
				walk(s.Else, guards, why)
			}
		case *ast.RangeStmt:
			if pth, ok := pathOf(s.X); ok {
				if id, ok := s.Value.(*ast.Ident); ok && s.Value != nil {
					if o := an.ObjOf(info, id); o != nil {
						rangeVar[o] = pth + "[]"
						rangeOf[o] = s
					}
				}
				walk(s.Body, guards, bad)
			} else {
				walk(s.Body, guards, fmt.Sprintf("inside `for … range %s`", an.Str(s.X)))
			}
		case *ast.ExprStmt:
			call, ok := s.X.(*ast.CallExpr)
			if !ok {
				return
			}
			name := an.CalleeName(info, call)
			switch {
			case name == "(utils.VisitorContext).visitNode" && len(call.Args) == 1,
				name == "(utils.Visitor).Visit" && len(call.Args) == 2,
				name == "(utils.VisitorContext).Visit" && len(call.Args) == 1:
				arg := call.Args[len(call.Args)-1]
				if name == "(utils.VisitorContext).Visit" && bad == "" {
					// the dispatcher descends into the node's children; the node itself is handed to the visitor by
					// visitNode / Visitor.Visit only
					bad = "handed to VisitorContext.Visit, which visits its children but never shows the node itself to the visitor"
				}
				if pth, ok := pathOf(arg); ok {
					if o := outside(pth); o != "" && bad == "" {
						bad = o
					}
					out = append(out, visitCall{path: pth, call: call, guards: guards, badCtx: bad, inHelper: h})
				} else {
					out = append(out, visitCall{path: "?" + an.Str(arg), call: call, guards: guards, badCtx: bad, inHelper: h})
				}
			default:
				if callee := r.p.FnByObj[an.Callee(info, call)]; callee != nil && callee.Pkg == r.p.Utils && len(call.Args) == 1 {
					if pth, ok := pathOf(call.Args[0]); ok {
						// delegation: visitListNode(x.List) visits the elements of x.List — for the caller that is "x.List visited"
						if callee.Name == "utils.(VisitorContext).visitListNode" {
							if pth != strings.TrimSuffix(prefix, ".") || prefix != "" {
								// iterating a child list directly: the child ListNode itself is skipped, its elements are visited
								if o := outside(pth); o != "" && bad == "" {
									bad = o
								}
								out = append(out, visitCall{path: pth, call: call, guards: guards, badCtx: bad, inHelper: h})
								return
							}
						}
						np := pth
						if np != "" {
							np += "."
						}
						sub := r.collect(callee, np, guards, seen)
						for i := range sub {
							if o := outside(sub[i].path); o != "" && sub[i].badCtx == "" {
								sub[i].badCtx = o
							}
							if bad != "" && sub[i].badCtx == "" {
								sub[i].badCtx = bad
							}
							sub[i].guards = append(append([]string{}, guards...), sub[i].guards...)
						}
						out = append(out, sub...)
					}
				}
			}
		case *ast.ForStmt:
			// `for i := 0; i < len(<child list>); i++` whose body does not assign i visits every element, like range
			if iv, lp, ok := r.plainWalk(h, s, pathOf); ok {
				indexVar[iv] = lp
				walk(s.Body, guards, bad)
				delete(indexVar, iv)
			} else {
				walk(s.Body, guards, "inside a for loop")
			}
		case *ast.SwitchStmt:
			walk(s.Body, guards, "inside a switch")
		case *ast.CaseClause:
			for _, st := range s.Body {
				walk(st, guards, bad)
			}
		case *ast.ReturnStmt:
			// an early return makes everything after it conditional; handled by flagging returns that are not last
		}
	}
	walk(h.Body, guards, "")
	// early returns other than as the final statement make later visits conditional
	for i, st := range h.Body.List {
		hasRet := false
		ast.Inspect(st, func(n ast.Node) bool {
			if _, ok := n.(*ast.ReturnStmt); ok {
				hasRet = true
			}
			if _, ok := n.(*ast.FuncLit); ok {
				return false
			}
			return true
		})
		if hasRet && i != len(h.Body.List)-1 && !guardClauses[st] {
			for j := range out {
				if out[j].inHelper == h && out[j].call.Pos() > st.End() && out[j].badCtx == "" {
					out[j].badCtx = fmt.Sprintf("after an early return at %s", r.p.RelPos(st.Pos()))
				}
			}
		}
	}
	_ = rangeOf
	return out
}

// c20markers: the parser's internal marker nodes ({{end}}, {{else}}, {{content}}, {{catch}} — the
// unexported NodeType constants) terminate a list, they are never part of one: utils cannot even name
// their types and the visitor panics on them.  Wherever a node that came from textOrAction() is appended
// to a list, each marker type is known to be excluded on that path (the terminator loop of itemList does
// not establish that: it only knows the terminators of the construct being parsed).
func c20markers(c *an.Ctx) {
	p := c.P
	var markers []string
	sc := p.Jet.Types.Scope()
	for _, name := range sc.Names() {
		if k, ok := sc.Lookup(name).(*types.Const); ok && !k.Exported() && an.TypeName(k.Type()) == "jet.NodeType" {
			markers = append(markers, name)
		}
	}
	// only the constants some node is actually built with (beginExpressions/endExpressions delimit a range of
	// the enumeration, no node has them)
	built := map[string]bool{}
	for _, file := range p.Jet.Syntax {
		ast.Inspect(file, func(n ast.Node) bool {
			if kv, ok := n.(*ast.KeyValueExpr); ok {
				if k, ok := kv.Key.(*ast.Ident); ok && k.Name == "NodeType" {
					if v, ok := kv.Value.(*ast.Ident); ok {
						built[v.Name] = true
					}
				}
			}
			return true
		})
	}
	kept := markers[:0]
	for _, m := range markers {
		if built[m] {
			kept = append(kept, m)
		}
	}
	markers = kept
	sort.Strings(markers)
	if len(markers) == 0 {
		c.OK("C20.cases", "parser/markers-stay-out", p.Jet.Syntax[0].Pos(), "the parser has no internal marker node types")
		return
	}
	nSites := 0
	for _, f := range p.Units() {
		if f.Pkg != p.Jet || f.Body == nil {
			continue
		}
		info := f.Info()
		var sites []ast.Node
		argOf := map[ast.Node]*ast.Ident{}
		for _, call := range p.CallsIn(f, "(*jet.ListNode).append") {
			if len(call.Args) != 1 {
				continue
			}
			id, ok := an.Unparen(call.Args[0]).(*ast.Ident)
			if !ok {
				continue
			}
			fromAny := false
			var fromParse func(o types.Object, depth int)
			fromParse = func(o types.Object, depth int) {
				if o == nil || depth > 3 {
					return
				}
				for _, d := range an.LocalDefs(f, o) {
					if d == nil {
						continue
					}
					if dc, ok := an.Unparen(d).(*ast.CallExpr); ok && an.CalleeName(info, dc) == "(*jet.Template).textOrAction" {
						fromAny = true
					}
					// (a helper's parameter is defined by what its call site passes)
					if did, ok := an.Unparen(d).(*ast.Ident); ok {
						fromParse(an.ObjOf(info, did), depth+1)
					}
				}
			}
			fromParse(an.ObjOf(info, id), 0)
			if fromAny {
				sites = append(sites, call)
				argOf[call] = id
			}
		}
		if len(sites) == 0 {
			continue
		}
		c.FnsAnalysed[f.Name] = true
		pr := p.ProbeFn(f, sites, an.Hooks{})
		c.States += pr.X.Visited
		for _, s := range sites {
			nSites++
			name := an.RoleOf(an.ObjOf(info, argOf[s]))
			var open []string
			if len(pr.At[s]) == 0 {
				open = append(open, "(append not reached by the exploration)")
			}
			for _, m := range markers {
				for _, st := range pr.At[s] {
					excluded := false
					for k, v := range st.Facts {
						pk := strings.ReplaceAll(an.PlainKey(k), " ", "")
						if !v && (pk == name+".Type()=="+m || pk == m+"=="+name+".Type()") {
							excluded = true
						}
						if v && (pk == name+".Type()!="+m || pk == m+"!="+name+".Type()") {
							excluded = true
						}
					}
					if !excluded {
						open = append(open, m)
						break
					}
				}
			}
			key := f.Name + "/markers-stay-out"
			if len(open) == 0 {
				c.OK("C20.cases", key, s.Pos(), "every marker type (%s) is excluded where the node is appended", strings.Join(markers, ", "))
			} else {
				c.Bad("C20.cases", key, s.Pos(), nil, "%s appends the node returned by textOrAction() to a list on a path where it can still be a marker node (%s): a stray {{%s}} is accepted by the parser and ends up in the tree, where utils.Walk panics on it",
					f.Name, strings.Join(open, ", "), strings.TrimPrefix(strings.ToLower(open[0]), "node"))
			}
		}
	}
	c.Expect("C20.cases", "appends of a parsed text-or-action node to a list", nSites, 2)
}

// c20noShare: "each exactly once" needs a tree — no node reachable through two child fields.  The one
// place where the parser derives one child from another is parseControl: when the header is an assignment
// the *SetNode is taken out of the header expression, and the expression result must then be replaced
// by nil or by a freshly parsed expression before it is returned next to the set.
func c20noShare(c *an.Ctx) {
	p := c.P
	f := c.Fn("C20.walk", "(*Template).parseControl")
	if f == nil {
		return
	}
	info := f.Info()
	if f.Sig == nil || f.Sig.Results().Len() < 4 {
		c.Anchor("C20.walk", "results (pos, line, set, expression, …) of parseControl")
		return
	}
	// roles by type: the *SetNode result and the Expression result
	var setVar, exprVar *types.Var
	for i := 0; i < f.Sig.Results().Len(); i++ {
		v := f.Sig.Results().At(i)
		switch an.TypeName(v.Type()) {
		case "*jet.SetNode":
			setVar = v
		case "jet.Expression":
			exprVar = v
		}
	}
	if setVar == nil || exprVar == nil || setVar.Name() == "" || exprVar.Name() == "" {
		c.Anchor("C20.walk", "named *SetNode and Expression results of parseControl")
		return
	}
	mentions := func(e ast.Expr, v *types.Var) bool {
		found := false
		if e == nil {
			return false
		}
		ast.Inspect(e, func(n ast.Node) bool {
			if id, ok := n.(*ast.Ident); ok && an.ObjOf(info, id) == types.Object(v) {
				found = true
			}
			return !found
		})
		return found
	}
	hooks := an.Hooks{PreAssign: func(x *an.Explorer, lhs, rhs ast.Expr, stmt ast.Node, st *an.State) {
		id, ok := an.Unparen(lhs).(*ast.Ident)
		if !ok {
			return
		}
		switch an.ObjOf(info, id) {
		case types.Object(setVar):
			if mentions(rhs, exprVar) {
				st.Set("shared", "1") // set is (part of) the header expression
			} else {
				st.Set("shared", "")
			}
		case types.Object(exprVar):
			switch {
			case rhs == nil:
				st.Set("shared", "1") // multi-value definition: unknown origin
			case mentions(rhs, setVar):
				st.Set("shared", "1")
			default:
				if tv, ok := info.Types[rhs]; ok && tv.IsNil() {
					st.Set("shared", "")
				} else if call, ok := an.Unparen(rhs).(*ast.CallExpr); ok && p.FnByObj[an.Callee(info, call)] != nil {
					st.Set("shared", "") // a freshly parsed expression
				}
			}
		}
	}}
	x := p.NewExplorer(f, hooks)
	x.Run(nil)
	c.States += x.Visited
	c.FnsAnalysed[f.Name] = true
	ok, nRet := true, 0
	var trail []string
	for _, e := range x.Exits {
		if e.Kind != an.ExitReturn {
			continue
		}
		nRet++
		if e.State.Get("shared") != "" {
			ok, trail = false, e.Trail
		}
	}
	if nRet == 0 {
		c.Undecided("C20.walk", "(*Template).parseControl/no-shared-child", f.Pos(), "no return reached")
		return
	}
	if ok {
		c.OK("C20.walk", "(*Template).parseControl/no-shared-child", f.Pos(), "when the header is an assignment the expression returned next to it is nil or freshly parsed")
	} else {
		c.Bad("C20.walk", "(*Template).parseControl/no-shared-child", f.Pos(), trail, "parseControl can return an expression that is (part of) the assignment it returns as the branch's Set: the subtree hangs below two fields of the if/range node and the visitor reaches it twice")
	}
}

// plainWalk: s is `for i := 0; i < len(L); i++ { … }` with L a child list (pathOf) and no other assignment to i.
func (r *c20) plainWalk(h *an.Fn, s *ast.ForStmt, pathOf func(ast.Expr) (string, bool)) (types.Object, string, bool) {
	info := h.Info()
	init, ok := s.Init.(*ast.AssignStmt)
	if !ok || len(init.Lhs) != 1 || len(init.Rhs) != 1 || an.Str(init.Rhs[0]) != "0" {
		return nil, "", false
	}
	id, ok := init.Lhs[0].(*ast.Ident)
	if !ok {
		return nil, "", false
	}
	iv := an.ObjOf(info, id)
	cond, ok := an.Unparen(s.Cond).(*ast.BinaryExpr)
	if !ok || s.Cond == nil || cond.Op != token.LSS {
		return nil, "", false
	}
	if cid, ok := an.Unparen(cond.X).(*ast.Ident); !ok || an.ObjOf(info, cid) != iv {
		return nil, "", false
	}
	call, ok := an.Unparen(cond.Y).(*ast.CallExpr)
	if !ok || an.CalleeName(info, call) != "builtin.len" || len(call.Args) != 1 {
		return nil, "", false
	}
	lp, ok := pathOf(call.Args[0])
	if !ok {
		return nil, "", false
	}
	post, ok := s.Post.(*ast.IncDecStmt)
	if !ok || post.Tok != token.INC {
		return nil, "", false
	}
	if pid, ok := an.Unparen(post.X).(*ast.Ident); !ok || an.ObjOf(info, pid) != iv {
		return nil, "", false
	}
	assigned := false
	ast.Inspect(s.Body, func(n ast.Node) bool {
		switch a := n.(type) {
		case *ast.AssignStmt:
			for _, l := range a.Lhs {
				if lid, ok := an.Unparen(l).(*ast.Ident); ok && an.ObjOf(info, lid) == iv {
					assigned = true
				}
			}
		case *ast.IncDecStmt:
			if lid, ok := an.Unparen(a.X).(*ast.Ident); ok && an.ObjOf(info, lid) == iv {
				assigned = true
			}
		case *ast.BranchStmt:
			if a.Tok == token.BREAK || a.Tok == token.GOTO {
				assigned = true
			}
		}
		return true
	})
	if assigned {
		return nil, "", false
	}
	return iv, lp, true
}

// c20dispatch interprets the visitor's dispatch for one concrete node type (see runC20).
type c20dispatch struct {
	p      *an.Prog
	info   *types.Info
	target *types.Named
	fns    map[*an.Fn]bool    // functions the dispatch runs through
	arm    *ast.CaseClause    // the non-default arm that names the type
	alias  map[types.Object]bool
	vals   map[types.Object]string // bool locals holding the result of a dispatch helper
}

// run interprets fn with its parameter `node` holding a value of the target type; it returns how the function ends
// ("return", "panic", "unknown") and, for a bool-valued function, the value returned ("true", "false", "").
func (d *c20dispatch) run(fn *an.Fn, node *types.Var, depth int) (string, string) {
	if fn == nil || fn.Body == nil || node == nil || depth > 4 {
		return "unknown", ""
	}
	d.fns[fn] = true
	saved := d.alias
	d.alias = map[types.Object]bool{node: true}
	defer func() { d.alias = saved }()
	ctrl, val := d.stmts(fn.Body.List, depth)
	if ctrl == "next" {
		ctrl = "return"
	}
	return ctrl, val
}

func (d *c20dispatch) stmts(list []ast.Stmt, depth int) (string, string) {
	for _, s := range list {
		ctrl, val := d.stmt(s, depth)
		if ctrl != "next" {
			return ctrl, val
		}
	}
	return "next", ""
}

func (d *c20dispatch) isNode(e ast.Expr) bool {
	id, ok := an.Unparen(e).(*ast.Ident)
	return ok && d.alias[an.ObjOf(d.info, id)]
}

func (d *c20dispatch) stmt(s ast.Stmt, depth int) (string, string) {
	switch s := s.(type) {
	case *ast.BlockStmt:
		return d.stmts(s.List, depth)
	case *ast.EmptyStmt:
		return "next", ""
	case *ast.ExprStmt:
		if call, ok := s.X.(*ast.CallExpr); ok {
			if an.IsCallTo(d.info, call, "builtin.panic") {
				return "panic", ""
			}
			return "next", "" // a visit helper: C20.fields
		}
		return "unknown", ""
	case *ast.ReturnStmt:
		switch len(s.Results) {
		case 0:
			return "return", ""
		case 1:
			return "return", d.cond(s.Results[0], depth)
		}
		return "unknown", ""
	case *ast.AssignStmt:
		// ok := vc.visitStatement(node) (also the form the checker's hoisting gives a call in a condition)
		if len(s.Lhs) == 1 && len(s.Rhs) == 1 {
			if id, ok := s.Lhs[0].(*ast.Ident); ok {
				if o := an.ObjOf(d.info, id); o != nil {
					if d.vals == nil {
						d.vals = map[types.Object]string{}
					}
					d.vals[o] = d.cond(s.Rhs[0], depth)
					if d.vals[o] == "panic" {
						return "panic", ""
					}
					return "next", ""
				}
			}
		}
		return "unknown", ""
	case *ast.IfStmt:
		if s.Init != nil {
			if ctrl, _ := d.stmt(s.Init, depth); ctrl != "next" {
				return ctrl, ""
			}
		}
		switch d.cond(s.Cond, depth) {
		case "true":
			return d.stmts(s.Body.List, depth)
		case "false":
			if s.Else == nil {
				return "next", ""
			}
			return d.stmt(s.Else, depth)
		}
		return "unknown", ""
	case *ast.TypeSwitchStmt:
		// switch x := node.(type) / switch node.(type)
		var subject ast.Expr
		var bound bool
		switch a := s.Assign.(type) {
		case *ast.AssignStmt:
			if len(a.Rhs) == 1 {
				if ta, ok := an.Unparen(a.Rhs[0]).(*ast.TypeAssertExpr); ok {
					subject, bound = ta.X, true
				}
			}
		case *ast.ExprStmt:
			if ta, ok := an.Unparen(a.X).(*ast.TypeAssertExpr); ok {
				subject = ta.X
			}
		}
		if s.Init != nil || subject == nil || !d.isNode(subject) {
			return "unknown", ""
		}
		var chosen, def *ast.CaseClause
		for _, cl := range s.Body.List {
			cc := cl.(*ast.CaseClause)
			if cc.List == nil {
				def = cc
				continue
			}
			for _, te := range cc.List {
				t := d.info.Types[te].Type
				if ptr, ok := t.(*types.Pointer); ok && an.NamedOf(ptr.Elem()) == d.target {
					chosen = cc
				}
			}
		}
		if chosen != nil {
			if d.arm == nil {
				d.arm = chosen
			}
		} else {
			chosen = def
		}
		if chosen == nil {
			return "next", ""
		}
		if bound {
			if o := d.info.Implicits[chosen]; o != nil {
				d.alias[o] = true
			}
		}
		return d.stmts(chosen.Body, depth)
	}
	return "unknown", ""
}

// cond evaluates a bool expression of the dispatch: "true", "false" or "" (not followed).
func (d *c20dispatch) cond(e ast.Expr, depth int) string {
	e = an.Unparen(e)
	if tv, ok := d.info.Types[e]; ok && tv.Value != nil && tv.Value.Kind() == constant.Bool {
		if constant.BoolVal(tv.Value) {
			return "true"
		}
		return "false"
	}
	switch x := e.(type) {
	case *ast.Ident:
		if v, ok := d.vals[an.ObjOf(d.info, x)]; ok {
			return v
		}
	case *ast.UnaryExpr:
		if x.Op == token.NOT {
			switch d.cond(x.X, depth) {
			case "true":
				return "false"
			case "false":
				return "true"
			}
		}
	case *ast.BinaryExpr:
		if x.Op == token.LOR || x.Op == token.LAND {
			l := d.cond(x.X, depth)
			if l == "" {
				return ""
			}
			if (x.Op == token.LOR) == (l == "true") {
				return l // short circuit
			}
			return d.cond(x.Y, depth)
		}
	case *ast.CallExpr:
		g := d.p.FnByObj[an.Callee(d.info, x)]
		if g == nil || g.Body == nil || g.Pkg != d.p.Utils || g.Sig == nil || g.Sig.Results().Len() != 1 {
			return ""
		}
		var param *types.Var
		for i, a := range x.Args {
			if d.isNode(a) && i < g.Sig.Params().Len() {
				param = g.Sig.Params().At(i)
			}
		}
		if param == nil {
			return ""
		}
		ctrl, val := d.run(g, param, depth+1)
		if ctrl != "return" {
			if ctrl == "panic" {
				return "panic"
			}
			return ""
		}
		return val
	}
	return ""
}
