package rules

import (
	"go/ast"
	"go/token"
	"go/types"

	"jetverif/an"
)

// refType: a type whose values share storage when copied (map, slice, pointer to something mutable is
// not considered here).
func refType(t types.Type) bool {
	if t == nil {
		return false
	}
	switch t.Underlying().(type) {
	case *types.Map, *types.Slice:
		return true
	}
	return false
}

// freshStore is one store of a reference-typed value into a long-lived container.
type freshStore struct {
	fn    *an.Fn
	at    ast.Node  // the storing statement (or composite literal)
	what  string    // "cache[field.Name]" / "Template.processedBlocks"
	value ast.Expr  // stored expression
	pos   token.Pos // position of the store
}

// indexStores finds `X[k] = v` in module functions of pk where the static type of X satisfies match.
func indexStores(c *an.Ctx, match func(container types.Type) bool) []freshStore {
	var out []freshStore
	for _, f := range c.P.Units() {
		if f.Body == nil {
			continue
		}
		info := f.Info()
		an.InspectOwn(f, func(n ast.Node) bool {
			an.Assigns(n, func(lhs, rhs ast.Expr, _ token.Token) {
				ix, ok := an.Unparen(lhs).(*ast.IndexExpr)
				if !ok {
					return
				}
				tv, ok := info.Types[ix.X]
				if !ok || !match(tv.Type) {
					return
				}
				out = append(out, freshStore{f, n, an.Str(lhs), rhs, lhs.Pos()})
			})
			return true
		})
	}
	return out
}

// fieldStores finds assignments `x.f = v` and composite-literal entries `T{f: v}` for the fields of the
// named struct types (of package pk) whose type is a map or slice.
func fieldStores(c *an.Ctx, owners map[string]bool, want func(fieldType types.Type) bool) []freshStore {
	p := c.P
	var out []freshStore
	for _, f := range p.Units() {
		if f.Body == nil {
			continue
		}
		info := f.Info()
		an.InspectOwn(f, func(n ast.Node) bool {
			an.Assigns(n, func(lhs, rhs ast.Expr, _ token.Token) {
				sel, ok := an.Unparen(lhs).(*ast.SelectorExpr)
				if !ok {
					return
				}
				fv := an.FieldOf(info, sel)
				if fv == nil || !want(fv.Type()) {
					return
				}
				if own := p.FieldOwner(fv); !owners[own] {
					return
				}
				out = append(out, freshStore{f, n, p.FieldKey(info, sel), rhs, lhs.Pos()})
			})
			if cl, ok := n.(*ast.CompositeLit); ok {
				tv, ok := info.Types[cl]
				if !ok {
					return true
				}
				named := an.NamedOf(tv.Type)
				if named == nil || !owners[named.Obj().Name()] {
					return true
				}
				for _, el := range cl.Elts {
					kv, ok := el.(*ast.KeyValueExpr)
					if !ok {
						continue
					}
					id, ok := kv.Key.(*ast.Ident)
					if !ok {
						continue
					}
					fv, _ := info.Uses[id].(*types.Var)
					if fv == nil || !fv.IsField() || !want(fv.Type()) {
						continue
					}
					out = append(out, freshStore{f, cl, named.Obj().Name() + "." + id.Name, kv.Value, kv.Pos()})
				}
			}
			return true
		})
	}
	return out
}

// checkFresh discharges or reports each store.  selfAppend allows `x.f = append(x.f, …)` (growing
// the owner's own slice).
func checkFresh(c *an.Ctx, rule string, stores []freshStore, why string, selfAppend bool) int {
	n := 0
	for _, s := range stores {
		if s.value == nil {
			c.Bad(rule, s.fn.Name+"/store:"+s.what, s.pos, nil, "%s is stored from a multi-value assignment; its freshness cannot be established", s.what)
			continue
		}
		n++
		if selfAppend {
			if call, ok := an.Unparen(s.value).(*ast.CallExpr); ok && an.IsCallTo(s.fn.Info(), call, "builtin.append") && len(call.Args) > 0 {
				if as, ok := s.at.(*ast.AssignStmt); ok && len(as.Lhs) == 1 && an.Str(as.Lhs[0]) == an.Str(call.Args[0]) {
					c.OK(rule, s.fn.Name+"/store:"+s.what, s.pos, "%s grows its own slice", s.what)
					continue
				}
			}
		}
		ok, reason := c.P.Fresh(s.fn, s.value, s.at)
		if ok {
			c.OK(rule, s.fn.Name+"/store:"+s.what, s.pos, "the value stored in %s is a fresh allocation", s.what)
		} else {
			c.Bad(rule, s.fn.Name+"/store:"+s.what, s.pos, nil, "%s stores `%s`, which is not a fresh allocation (%s): %s", s.what, an.Str(s.value), reason, why)
		}
	}
	return n
}

// fieldIndexStores finds `x.f[k] = v` for the field with the given key ("InMemLoader.files").
func fieldIndexStores(c *an.Ctx, fieldKey string) []freshStore {
	var out []freshStore
	for _, f := range c.P.Units() {
		if f.Body == nil {
			continue
		}
		info := f.Info()
		an.InspectOwn(f, func(n ast.Node) bool {
			an.Assigns(n, func(lhs, rhs ast.Expr, _ token.Token) {
				ix, ok := an.Unparen(lhs).(*ast.IndexExpr)
				if !ok || c.P.FieldKey(info, an.Unparen(ix.X)) != fieldKey {
					return
				}
				out = append(out, freshStore{f, n, an.Str(lhs), rhs, lhs.Pos()})
			})
			return true
		})
	}
	return out
}

// inPlaceWrites reports writes through a value read from the container field fieldKey: append/copy with
// such a value as destination, or an element store x.f[k][i] = v, directly or through a local defined
// from x.f[k].  The stored values are handed out to readers (Open) and must never change afterwards.
func inPlaceWrites(c *an.Ctx, rule, fieldKey, why string) int {
	p := c.P
	nreads := 0
	for _, f := range p.Units() {
		if f.Body == nil {
			continue
		}
		info := f.Info()
		var derived func(e ast.Expr, depth int) bool
		derived = func(e ast.Expr, depth int) bool {
			if depth > 4 {
				return false
			}
			switch v := an.Unparen(e).(type) {
			case *ast.SliceExpr:
				return derived(v.X, depth+1)
			case *ast.IndexExpr:
				if p.FieldKey(info, an.Unparen(v.X)) == fieldKey {
					return true
				}
			case *ast.Ident:
				o := an.ObjOf(info, v)
				if o == nil {
					return false
				}
				found := false
				ast.Inspect(f.Body, func(n ast.Node) bool {
					if as, ok := n.(*ast.AssignStmt); ok && len(as.Rhs) == 1 && len(as.Lhs) >= 1 {
						if id, ok := an.Unparen(as.Lhs[0]).(*ast.Ident); ok && an.ObjOf(info, id) == o && derived(as.Rhs[0], depth+1) {
							found = true
						}
					}
					return !found
				})
				return found
			}
			return false
		}
		ast.Inspect(f.Body, func(n ast.Node) bool {
			switch v := n.(type) {
			case *ast.IndexExpr:
				if p.FieldKey(info, an.Unparen(v.X)) == fieldKey {
					nreads++
				}
			case *ast.CallExpr:
				if an.IsCallTo(info, v, "builtin.append", "builtin.copy") && len(v.Args) > 0 && derived(v.Args[0], 0) {
					c.Bad(rule, f.Name+"/in-place:"+fieldKey, v.Pos(), nil, "`%s` writes into the storage of a value kept in %s: %s", an.Str(v), fieldKey, why)
				}
			case *ast.AssignStmt:
				for _, l := range v.Lhs {
					if ix, ok := an.Unparen(l).(*ast.IndexExpr); ok {
						if tv, ok := info.Types[ix.X]; ok {
							if _, isSlice := tv.Type.Underlying().(*types.Slice); isSlice && derived(ix.X, 0) {
								c.Bad(rule, f.Name+"/in-place:"+fieldKey, l.Pos(), nil, "`%s` overwrites an element of a value kept in %s: %s", an.StmtStr(v), fieldKey, why)
							}
						}
					}
				}
			}
			return true
		})
	}
	return nreads
}
