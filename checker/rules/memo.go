package rules

import (
	"fmt"
	"go/ast"
	"go/token"
	"go/types"
	"strings"

	"jetverif/an"
)

// memoRule (C06.cache / C10.memo): resolveIndex memoises the field table of a struct type in a package-level
// map.  What it then consults must be the published table on every path — the value a lookup of the
// map found (presence flag true) or the value it stored into the map itself — never the zero value
// left over from a failed lookup (a shadowed `cache, ok :=` under the write lock leaves the outer
// variable empty: the first access of a type then takes the reflective slow path, whose answers differ
// from the table's for embedded structs, so the same execution renders differently the second time).
func memoRule(c *an.Ctx, rule string) {
	p := c.P
	f := c.Fn(rule, "resolveIndex")
	if f == nil {
		return
	}
	info := f.Info()
	isGlobalMap := func(e ast.Expr) bool {
		id, ok := an.Unparen(e).(*ast.Ident)
		if !ok {
			return false
		}
		v, ok := an.ObjOf(info, id).(*types.Var)
		if !ok || v.IsField() || v.Pkg() == nil || v.Parent() != v.Pkg().Scope() {
			return false
		}
		_, isMap := v.Type().Underlying().(*types.Map)
		return isMap
	}
	reg := func(o types.Object) string { return fmt.Sprintf("memo:%s·%d", o.Name(), int(o.Pos())) }
	flagOf := map[types.Object]types.Object{} // presence flag → the variable it speaks about
	tracked := map[types.Object]bool{}
	var bad token.Pos
	var badState string
	nUse := 0
	hooks := an.Hooks{
		PreAssign: func(x *an.Explorer, lhs, rhs ast.Expr, stmt ast.Node, st *an.State) {
			// v, ok := G[k]
			if as, ok := stmt.(*ast.AssignStmt); ok && len(as.Lhs) == 2 && len(as.Rhs) == 1 && as.Lhs[0] == lhs {
				if ix, ok := an.Unparen(as.Rhs[0]).(*ast.IndexExpr); ok && isGlobalMap(ix.X) {
					vid, ok1 := as.Lhs[0].(*ast.Ident)
					fid, ok2 := as.Lhs[1].(*ast.Ident)
					if ok1 && ok2 {
						vo, fo := an.ObjOf(info, vid), an.ObjOf(info, fid)
						if vo != nil && fo != nil {
							tracked[vo] = true
							flagOf[fo] = vo
							st.Set(reg(vo), "looked-up")
						}
					}
				}
				return
			}
			// G[k] = v : published
			if ix, ok := an.Unparen(lhs).(*ast.IndexExpr); ok && isGlobalMap(ix.X) && rhs != nil {
				if id, ok := an.Unparen(rhs).(*ast.Ident); ok {
					if o := an.ObjOf(info, id); o != nil {
						tracked[o] = true
						st.Set(reg(o), "published")
					}
				}
				return
			}
			id, ok := an.Unparen(lhs).(*ast.Ident)
			if !ok || rhs == nil {
				return
			}
			o := an.ObjOf(info, id)
			if o == nil {
				return
			}
			if _, isMap := o.Type().Underlying().(*types.Map); !isMap {
				return
			}
			switch r := an.Unparen(rhs).(type) {
			case *ast.Ident: // a copy (the result of a helper the lookup was moved into)
				if ro := an.ObjOf(info, r); ro != nil && tracked[ro] {
					tracked[o] = true
					st.Set(reg(o), st.Get(reg(ro)))
				}
			case *ast.CallExpr:
				if an.CalleeName(info, r) == "builtin.make" && tracked[o] {
					st.Set(reg(o), "made")
				}
			}
		},
		Branch: func(x *an.Explorer, cond ast.Expr, val bool, st *an.State) {
			e := an.Unparen(cond)
			if u, ok := e.(*ast.UnaryExpr); ok && u.Op == token.NOT {
				e, val = an.Unparen(u.X), !val
			}
			if id, ok := e.(*ast.Ident); ok {
				if vo := flagOf[an.ObjOf(info, id)]; vo != nil && st.Get(reg(vo)) == "looked-up" {
					if val {
						st.Set(reg(vo), "found")
					} else {
						st.Set(reg(vo), "missed")
					}
				}
			}
		},
		Stmt: func(x *an.Explorer, n ast.Node, st *an.State) {
			// reads of a tracked table: v[key] other than as the target of an assignment
			var lhsIx ast.Expr
			if as, ok := n.(*ast.AssignStmt); ok && len(as.Lhs) == 1 {
				lhsIx = as.Lhs[0]
			}
			ast.Inspect(n, func(m ast.Node) bool {
				if m != n {
					switch m.(type) {
					case *ast.BlockStmt, *ast.FuncLit:
						return false
					}
				}
				ix, ok := m.(*ast.IndexExpr)
				if !ok || ast.Expr(ix) == lhsIx {
					return true
				}
				id, ok := an.Unparen(ix.X).(*ast.Ident)
				if !ok {
					return true
				}
				o := an.ObjOf(info, id)
				if o == nil || !tracked[o] {
					return true
				}
				nUse++
				switch s := st.Get(reg(o)); s {
				case "found", "published":
				default:
					if !bad.IsValid() {
						bad, badState = ix.Pos(), s
					}
				}
				return true
			})
		},
	}
	x := p.NewExplorer(f, hooks)
	x.Run(nil)
	c.States += x.Visited
	key := "resolveIndex/published-table"
	switch {
	case x.Undecided != "":
		c.Undecided(rule, key, f.Pos(), "%s", x.Undecided)
	case nUse == 0:
		c.Anchor(rule, "consultation of the memoised field table in resolveIndex")
	case bad.IsValid():
		c.Bad(rule, key, bad, nil, "resolveIndex consults a field table that is neither the one found in the package-level cache nor the one it stored there (state on that path: %s): the first access of a struct type bypasses the table and later ones use it — the two answer differently for embedded structs, so the same Execute renders differently depending on what ran before",
			strings.TrimSpace(badState+" "))
	default:
		c.OK(rule, key, f.Pos(), "the field table consulted is the published one on every path (%d consultations)", nUse)
	}
}
