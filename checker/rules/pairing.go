package rules

import (
	"fmt"
	"go/ast"
	"go/token"
	"go/types"
	"sort"
	"strings"
	"sync"

	"jetverif/an"
)

// Shared F-PAIR machinery for the interpreter's paired operations:
//   - newScope / releaseScope (a counter that must return to its entry value at every normal exit),
//   - save/restore of Runtime.context, Runtime.content and escapeeWriter.Writer.

const (
	newScopeFn     = "(*jet.Runtime).newScope"
	releaseScopeFn = "(*jet.Runtime).releaseScope"
)

// pairedFields: the runtime state that constructs change for the duration of a body.  The three
// known ones are always included; any other field of Runtime / escapeeWriter that evaluator code
// stores to is discovered and held to the same discipline (saved before it is changed, restored
// afterwards; ++/-- must balance), so a new piece of per-execution state cannot silently escape it.
var pairedCache sync.Map // *an.Prog → []string

func pairedFieldsFor(p *an.Prog) []string {
	if v, ok := pairedCache.Load(p); ok {
		return v.([]string)
	}
	base := map[string]bool{"Runtime.context": true, "Runtime.content": true, "escapeeWriter.Writer": true}
	skip := map[string]bool{"Runtime.scope": true, "Runtime.escapeeWriter": true, "escapeeWriter.set": true}
	found := map[string]bool{}
	eval := p.Eval()
	for _, f := range p.Units() {
		if f.Pkg != p.Jet || f.Body == nil || !eval[f] {
			continue
		}
		switch f.Root().Name {
		case "(*Template).Execute", "(*Runtime).recover":
			continue
		}
		info := f.Info()
		an.InspectOwn(f, func(n ast.Node) bool {
			an.Assigns(n, func(lhs, _ ast.Expr, _ token.Token) {
				fk := p.FieldKey(info, lhs)
				if (strings.HasPrefix(fk, "Runtime.") || strings.HasPrefix(fk, "escapeeWriter.")) && !skip[fk] && !base[fk] {
					found[fk] = true
				}
			})
			return true
		})
	}
	out := []string{"Runtime.context", "Runtime.content", "escapeeWriter.Writer"}
	var extra []string
	for k := range found {
		extra = append(extra, k)
	}
	sort.Strings(extra)
	res := append(out, extra...)
	pairedCache.Store(p, res)
	return res
}

// pairResult is what exploring one function for pairing yields.
type pairResult struct {
	fn        *an.Fn
	x         *an.Explorer
	pushSites map[token.Pos]bool
	popSites  map[token.Pos]bool
	scopeBad  []pairFinding          // unbalanced exits / negative depth
	fieldBad  map[string]pairFinding // field → first bad exit
	fieldSeen map[string]bool        // fields stored to in this function
	declAt0   []token.Pos            // stores into variables[...] at depth 0 (not rebinding)
	declOK    []token.Pos
	blocksAt0 []token.Pos // stores to scope.blocks at depth 0
	blocksOK  []token.Pos
	callPush  map[ast.Node]map[token.Pos]bool       // call / variable store → positions of the innermost open newScope (NoPos: none) over all paths
	callDepth map[*ast.CallExpr]int                 // minimal depth at each call
	callDpop  map[*ast.CallExpr]int                 // minimal number of deferred pops registered at each call
	callRegs  map[*ast.CallExpr][]map[string]string // register snapshots at each call (for rules layered on the pairing run)
	// state that this function changes and puts back by a plain (non-deferred) statement: such a
	// restore is skipped when a panic unwinds through the function (input of C13.restore / C10.reset)
	plainRestore map[string]token.Pos // field → a plain restoring store
	plainPop     token.Pos            // a plain releaseScope call
	lateDefer    map[string]pairFinding // field → its deferred restore is registered after a call that can fail ran with the field changed
}

type pairFinding struct {
	pos   token.Pos
	msg   string
	trail []string
}

// isRestoreSource: v is a local/captured variable all of whose definitions load field `field`.
func isRestoreSource(p *an.Prog, f *an.Fn, e ast.Expr, field string) (types.Object, bool) {
	id, ok := an.Unparen(e).(*ast.Ident)
	if !ok {
		// saved.k — a local struct that carries the saved values (one composite literal, possibly built by a
		// helper), seen directly or through the parameter of a helper it was handed to
		if o, _, ok := savedStructField(p, f, e, field); ok {
			return o, true
		}
		return nil, false
	}
	info := f.Info()
	o := an.ObjOf(info, id)
	if o == nil {
		return nil, false
	}
	n := 0
	for _, d := range an.LocalDefs(f.Root(), o) {
		if d == nil {
			continue // zero-value declaration or multi-value definition
		}
		if p.FieldKey(info, d) != field {
			return o, false
		}
		n++
	}
	// tuple assignments  a, b, c := st.scope, st.context, st.content are covered by Assigns pairwise
	return o, n > 0
}

// savedStructField: e is X.k where X is (a helper parameter bound to) a local of f whose only definition is a
// composite literal — written in place or returned by a helper — with the element k: <runtime>.<field>.
// Returns the local, the name under which the save is remembered ("X.k") and true.
func savedStructField(p *an.Prog, f *an.Fn, e ast.Expr, field string) (types.Object, string, bool) {
	sel, ok := an.Unparen(e).(*ast.SelectorExpr)
	if !ok {
		return nil, "", false
	}
	info := f.Info()
	base, ok := an.Unparen(sel.X).(*ast.Ident)
	if !ok {
		return nil, "", false
	}
	obj := an.ObjOf(info, base)
	// through a helper's parameter
	for depth := 0; depth < 3; depth++ {
		v, isVar := obj.(*types.Var)
		if !isVar {
			break
		}
		binds := p.HelperBinds(f)[v] // (a literal binds the parameters of the helpers it calls itself)
		if len(binds) == 0 {
			binds = p.HelperBinds(f.Root())[v]
		}
		if len(binds) == 0 {
			// f itself is the helper (a recover handler written as a method): its parameters are bound by its callers
			for _, u := range p.Units() {
				if b := p.HelperBinds(u)[v]; len(b) > 0 {
					binds = b
					break
				}
			}
		}
		if len(binds) != 1 {
			break
		}
		id, ok := an.Unparen(binds[0].Arg).(*ast.Ident)
		if !ok {
			return nil, "", false
		}
		obj = an.ObjOf(info, id)
	}
	if obj == nil {
		return nil, "", false
	}
	lit := savedStructLit(p, f, obj)
	if lit == nil {
		return nil, "", false
	}
	for _, m := range litMembers(info, lit) {
		if m.name == sel.Sel.Name && p.FieldKey(info, m.val) == field {
			return obj, an.RoleOf(obj) + "." + m.name, true
		}
	}
	return nil, "", false
}

type litMember struct {
	name string
	val  ast.Expr
}

// litMembers: the members a struct literal sets, keyed (`T{scope: st.scope}`) or positional (`T{st.scope, …}`).
func litMembers(info *types.Info, lit *ast.CompositeLit) []litMember {
	var out []litMember
	var st *types.Struct
	if tv, ok := info.Types[lit]; ok && tv.Type != nil {
		st, _ = tv.Type.Underlying().(*types.Struct)
	}
	for i, el := range lit.Elts {
		if kv, ok := el.(*ast.KeyValueExpr); ok {
			if k, ok := kv.Key.(*ast.Ident); ok {
				out = append(out, litMember{k.Name, kv.Value})
			}
			continue
		}
		if st != nil && i < st.NumFields() {
			out = append(out, litMember{st.Field(i).Name(), el})
		}
	}
	return out
}

// throughBinds follows an identifier that is a parameter (or receiver) of a helper — of f, of f's root, or f itself
// when f is a handler method — to the local that every caller binds it to; other identifiers stand for themselves.
func throughBinds(p *an.Prog, f *an.Fn, e ast.Expr) types.Object {
	id, ok := an.Unparen(e).(*ast.Ident)
	if !ok {
		if u, isAddr := an.Unparen(e).(*ast.UnaryExpr); isAddr && u.Op == token.AND {
			return throughBinds(p, f, u.X)
		}
		return nil
	}
	obj := an.ObjOf(f.Info(), id)
	for depth := 0; depth < 3; depth++ {
		v, isVar := obj.(*types.Var)
		if !isVar {
			break
		}
		binds := p.HelperBinds(f)[v]
		if len(binds) == 0 {
			binds = p.HelperBinds(f.Root())[v]
		}
		if len(binds) == 0 {
			for _, u := range p.Units() {
				if b := p.HelperBinds(u)[v]; len(b) > 0 {
					binds = b
					break
				}
			}
		}
		if len(binds) != 1 {
			break
		}
		arg := an.Unparen(binds[0].Arg)
		if u, isAddr := arg.(*ast.UnaryExpr); isAddr && u.Op == token.AND {
			arg = an.Unparen(u.X)
		}
		bid, ok := arg.(*ast.Ident)
		if !ok {
			break
		}
		obj = an.ObjOf(f.Info(), bid)
	}
	return obj
}

// structMember: e is X.k with X (through binds) a local: returns that local and k.
func structMember(p *an.Prog, f *an.Fn, e ast.Expr) (types.Object, string, bool) {
	sel, ok := an.Unparen(e).(*ast.SelectorExpr)
	if !ok {
		return nil, "", false
	}
	obj := throughBinds(p, f, sel.X)
	if obj == nil {
		return nil, "", false
	}
	return obj, sel.Sel.Name, true
}

// savedStructLit: the single composite literal that defines local obj (directly or as the only result of a helper).
func savedStructLit(p *an.Prog, f *an.Fn, obj types.Object) *ast.CompositeLit {
	var lit *ast.CompositeLit
	n := 0
	owner := f.Root()
	if o := p.OwnerFn(obj.Pos()); o != nil {
		owner = o.Root() // (the local may belong to the function that handed it to f)
	}
	for _, d := range an.LocalDefs(owner, obj) {
		n++
		if d == nil {
			return nil
		}
		d = an.Unparen(d)
		if u, ok := d.(*ast.UnaryExpr); ok && u.Op == token.AND {
			d = an.Unparen(u.X)
		}
		if cl, ok := d.(*ast.CompositeLit); ok {
			lit = cl
			continue
		}
		if call, ok := d.(*ast.CallExpr); ok {
			if h := p.NewHelperCallee(owner, call); h != nil && h.Body != nil {
				var rets []*ast.ReturnStmt
				ast.Inspect(h.Body, func(m ast.Node) bool {
					if _, isLit := m.(*ast.FuncLit); isLit {
						return false
					}
					if r, ok := m.(*ast.ReturnStmt); ok {
						rets = append(rets, r)
					}
					return true
				})
				if len(rets) == 1 && len(rets[0].Results) == 1 {
					r := an.Unparen(rets[0].Results[0])
					if u, ok := r.(*ast.UnaryExpr); ok && u.Op == token.AND {
						r = an.Unparen(u.X)
					}
					if cl, ok := r.(*ast.CompositeLit); ok {
						lit = cl
						continue
					}
				}
			}
		}
		return nil
	}
	if n != 1 {
		return nil
	}
	return lit
}

// explorePairs runs the pairing exploration of one function.
func explorePairs(p *an.Prog, f *an.Fn) *pairResult {
	info := f.Info()
	pairedFields := pairedFieldsFor(p)
	res := &pairResult{fn: f, fieldBad: map[string]pairFinding{}, fieldSeen: map[string]bool{}, callDepth: map[*ast.CallExpr]int{}, callPush: map[ast.Node]map[token.Pos]bool{},
		callDpop: map[*ast.CallExpr]int{}, callRegs: map[*ast.CallExpr][]map[string]string{},
		pushSites: map[token.Pos]bool{}, popSites: map[token.Pos]bool{}, plainRestore: map[string]token.Pos{}, lateDefer: map[string]pairFinding{}}
	depthCap := 3
	negReported := false
	topPush := func(st *an.State) token.Pos {
		if d := st.Int("depth"); d >= 1 {
			return token.Pos(st.Int(fmt.Sprintf("push@%d", d)))
		}
		return token.NoPos
	}
	notePush := func(n ast.Node, st *an.State) {
		if res.callPush[n] == nil {
			res.callPush[n] = map[token.Pos]bool{}
		}
		res.callPush[n][topPush(st)] = true
	}
	hooks := an.Hooks{
		Call: func(x *an.Explorer, call *ast.CallExpr, st *an.State) {
			d := st.Int("depth")
			notePush(call, st)
			// a call that can panic while a field is changed and its restore is not yet registered: if the restore
			// turns out to be a deferred one (Defer hook), it was registered too late
			switch an.CalleeName(info, call) {
			case newScopeFn, releaseScopeFn:
			default:
				if !c11cannotPanic(p, f, call, 0) {
					for _, pf := range pairedFields {
						if st.Get("cur:"+pf) != "" && st.Get("dres:"+pf) == "" && st.Get("risk:"+pf) == "" {
							st.Set("risk:"+pf, p.RelPos(call.Pos())+" ("+an.Str(call.Fun)+")")
						}
					}
				}
			}
			if cur, ok := res.callDepth[call]; !ok || d < cur {
				res.callDepth[call] = d
			}
			if cur, ok := res.callDpop[call]; !ok || st.Int("dpop") < cur {
				res.callDpop[call] = st.Int("dpop")
			}
			if an.IsCallTo(info, call, execList) && len(res.callRegs[call]) < 64 {
				snap := map[string]string{}
				for k, v := range st.Regs {
					snap[k] = v
				}
				snap["__facts"] = strings.Join(an.Facts(st), " ; ")
				res.callRegs[call] = append(res.callRegs[call], snap)
			}
			switch an.CalleeName(info, call) {
			case newScopeFn:
				res.pushSites[call.Pos()] = true
				if d < depthCap {
					st.SetInt("depth", d+1)
					st.SetInt(fmt.Sprintf("push@%d", d+1), int(call.Pos()))
				} else if !negReported {
					negReported = true
					res.scopeBad = append(res.scopeBad, pairFinding{call.Pos(), "newScope can be executed repeatedly without an intervening releaseScope (unbounded scope depth)", nil})
				}
			case releaseScopeFn:
				res.popSites[call.Pos()] = true
				res.plainPop = call.Pos()
				if d-1 < 0 {
					st.SetInt("neg", 1)
				}
				if d >= 1 {
					st.Set(fmt.Sprintf("push@%d", d), "")
				}
				st.SetInt("depth", d-1)
			}
		},
		Defer: func(x *an.Explorer, d *ast.DeferStmt, st *an.State) {
			if an.IsCallTo(info, d.Call, releaseScopeFn) {
				res.popSites[d.Pos()] = true
				st.Add("dpop", 1)
				return
			}
			if fl, ok := an.Unparen(d.Call.Fun).(*ast.FuncLit); ok {
				// deferred closure: its plain restoring stores run at every exit, and so do the pops it makes
				// unconditionally (`defer func() { st.releaseScope() }()`)
				for _, s := range fl.Body.List {
					if es, isEs := s.(*ast.ExprStmt); isEs {
						if call, isCall := es.X.(*ast.CallExpr); isCall && an.IsCallTo(info, call, releaseScopeFn) {
							res.popSites[call.Pos()] = true
							st.Add("dpop", 1)
						}
					}
				}
				for _, s := range fl.Body.List {
					as, ok := s.(*ast.AssignStmt)
					if !ok {
						continue
					}
					an.Assigns(as, func(lhs, rhs ast.Expr, _ token.Token) {
						fk := p.FieldKey(info, lhs)
						for _, pf := range pairedFields {
							if fk == pf && rhs != nil {
								if o, ok := isRestoreSource(p, f, rhs, pf); ok {
									st.Set("dres:"+pf, an.RoleOf(o))
									if risk := st.Get("risk:" + pf); risk != "" {
										if _, dup := res.lateDefer[pf]; !dup {
											res.lateDefer[pf] = pairFinding{d.Pos(), "the deferred restore of " + pf + " is registered only after " + risk + " ran with the field already changed: if that call fails, nothing puts the field back (a failure swallowed by try or isset leaves it changed)", an.Facts(st)}
										}
									}
								}
							}
						}
					})
				}
			}
		},
		PreAssign: func(x *an.Explorer, lhs, rhs ast.Expr, stmt ast.Node, st *an.State) {
			// loads into locals:  v := st.F   (only counts while F is clean)
			if id, ok := an.Unparen(lhs).(*ast.Ident); ok && rhs != nil {
				fk := p.FieldKey(info, rhs)
				for _, pf := range pairedFields {
					if fk == pf && st.Get("cur:"+pf) == "" {
						st.Set("saved:"+pf, id.Name)
					}
				}
				// … or into a struct that carries them:  saved := T{scope: st.scope, …}
				if obj := an.ObjOf(info, id); obj != nil {
					if lit := savedStructLit(p, f, obj); lit != nil {
						for _, el := range lit.Elts {
							if kv, ok := el.(*ast.KeyValueExpr); ok {
								if k, ok := kv.Key.(*ast.Ident); ok {
									efk := p.FieldKey(info, kv.Value)
									for _, pf := range pairedFields {
										if efk == pf && st.Get("cur:"+pf) == "" {
											st.Set("saved:"+pf, an.RoleOf(obj)+"."+k.Name)
										}
									}
								}
							}
						}
					}
				}
				return
			}
			fk := p.FieldKey(info, lhs)
			for _, pf := range pairedFields {
				if fk != pf {
					continue
				}
				res.fieldSeen[pf] = true
				if inc, isInc := stmt.(*ast.IncDecStmt); isInc {
					// a counter: ++ and -- must balance
					d := 1
					if inc.Tok == token.DEC {
						d = -1
					}
					n := st.Int("cnt:"+pf) + d
					if n > 3 {
						n = 3
					}
					st.SetInt("cnt:"+pf, n)
					if n == 0 {
						// a counter brought back by a plain statement: put back on normal exits only
						if st.Get("cur:"+pf) != "" {
							res.plainRestore[pf] = lhs.Pos()
						}
						st.Set("cur:"+pf, "")
					} else {
						st.Set("cur:"+pf, fmt.Sprintf("counter%+d@%s", n, p.RelPos(lhs.Pos())))
					}
					continue
				}
				if rhs != nil {
					if o, ok := isRestoreSource(p, f, rhs, pf); ok {
						// restoring store: from the local saved on this path, or from a captured save of the enclosing function
						// a save captured from the enclosing function is only meaningful when this closure runs at
						// the exit of that very activation (it is the operand of a defer statement there); a closure
						// that escapes (e.g. the content closure) runs later and must save for itself
						_, isLocal := ownLocal(f, o)
						savedAs := an.RoleOf(o)
						if _, name, viaStruct := savedStructField(p, f, rhs, pf); viaStruct {
							savedAs = name
						}
						if (!isLocal && deferredInParent(f)) || (isLocal && st.Get("saved:"+pf) == savedAs) {
							if st.Get("cur:"+pf) != "" {
								res.plainRestore[pf] = lhs.Pos()
							}
							st.Set("cur:"+pf, "")
							continue
						}
					}
				}
				st.Set("cur:"+pf, "dirty@"+p.RelPos(lhs.Pos()))
			}
			// stores into the variables map / the blocks table through the runtime
			if ix, ok := an.Unparen(lhs).(*ast.IndexExpr); ok && p.FieldKey(info, ix.X) == "scope.variables" && throughRuntime(p, info, ix.X) {
				notePush(ix, st)
				if st.Int("depth") >= 1 {
					res.declOK = append(res.declOK, lhs.Pos())
				} else if !rebinding(x, st, ix) {
					res.declAt0 = append(res.declAt0, lhs.Pos())
				}
			}
			if fk == "scope.blocks" && throughRuntime(p, info, lhs) {
				if st.Int("depth") >= 1 {
					res.blocksOK = append(res.blocksOK, lhs.Pos())
				} else {
					res.blocksAt0 = append(res.blocksAt0, lhs.Pos())
				}
			}
		},
	}
	x := p.NewExplorer(f, hooks)
	// a deferred literal pops for the function that deferred it exactly what that function counted as deferred pops:
	// its unconditional top-level releaseScope statements.  It starts with that many scopes to its credit.
	credit := 0
	if deferredInParent(f) && f.Lit != nil {
		for _, s := range f.Lit.Body.List {
			if es, isEs := s.(*ast.ExprStmt); isEs {
				if call, isCall := es.X.(*ast.CallExpr); isCall && an.IsCallTo(info, call, releaseScopeFn) {
					credit++
				}
			}
		}
	}
	init := an.NewState()
	if credit > 0 {
		init.SetInt("depth", credit)
	}
	x.Run(init)
	res.x = x
	for _, ex := range x.Exits {
		if ex.Kind != an.ExitReturn {
			continue
		}
		pos := f.Body.End()
		if ex.Ret != nil && ex.Ret.Pos().IsValid() && ex.Ret.Pos() < f.Body.End() {
			pos = ex.Ret.Pos()
		}
		bal := ex.State.Int("depth") - ex.State.Int("dpop")
		if bal != 0 && len(res.scopeBad) < 3 {
			res.scopeBad = append(res.scopeBad, pairFinding{pos, fmt.Sprintf("a normal exit leaves the scope stack %+d relative to entry (pushes − pops − deferred pops)", bal), ex.Trail})
		}
		if ex.State.Int("neg") != 0 && len(res.scopeBad) < 3 {
			res.scopeBad = append(res.scopeBad, pairFinding{pos, "releaseScope is executed on a path where this function has not pushed a scope (it pops a scope of its caller)", ex.Trail})
		}
		for _, pf := range pairedFields {
			if cur := ex.State.Get("cur:" + pf); cur != "" && ex.State.Get("dres:"+pf) == "" {
				if _, dup := res.fieldBad[pf]; !dup {
					res.fieldBad[pf] = pairFinding{pos, fmt.Sprintf("a normal exit leaves %s changed (%s) without restoring the value saved before the change", pf, cur), ex.Trail}
				}
			}
		}
	}
	return res
}

// deferredInParent: f is a function literal that is the callee of a defer statement of its enclosing function.
func deferredInParent(f *an.Fn) bool {
	if f.Lit == nil || f.Parent == nil {
		return false
	}
	found := false
	an.InspectOwn(f.Parent, func(n ast.Node) bool {
		if d, ok := n.(*ast.DeferStmt); ok && an.Unparen(d.Call.Fun) == ast.Expr(f.Lit) {
			found = true
		}
		return true
	})
	return found
}

func ownLocal(f *an.Fn, o types.Object) (types.Object, bool) {
	if f.Body == nil || o == nil {
		return o, false
	}
	if o.Pos() >= f.Body.Pos() && o.Pos() < f.Body.End() {
		return o, true
	}
	// a local of a new helper that is analysed in place (spliced into f) is as good as f's own
	if owner := f.P.OwnerFn(o.Pos()); owner != nil && owner.Root() != f.Root() && f.P.IsNewHelper(owner.Root()) {
		return o, true
	}
	return o, false
}

// throughRuntime: the selector's base is a *Runtime (st.variables, st.scope.variables, a.runtime.blocks) rather than a bare *scope walker
func throughRuntime(p *an.Prog, info *types.Info, e ast.Expr) bool {
	sel, ok := an.Unparen(e).(*ast.SelectorExpr)
	if !ok {
		return false
	}
	for {
		t := info.Types[sel.X].Type
		if n := an.NamedOf(t); n != nil && n.Obj().Name() == "Runtime" {
			return true
		}
		inner, ok := an.Unparen(sel.X).(*ast.SelectorExpr)
		if !ok {
			return false
		}
		sel = inner
	}
}

// rebinding: the store m[k] = v happens under the fact that k is already present (`_, ok := m[k]; ok`).
func rebinding(x *an.Explorer, st *an.State, ix *ast.IndexExpr) bool {
	for k, v := range st.Facts {
		if v && an.PlainKey(k) == "ok" {
			return true
		}
	}
	return false
}

// reportScope turns a pairResult into obligations of the given rule.
func reportScope(c *an.Ctx, rule string, r *pairResult) {
	key := r.fn.Name
	c.States += r.x.Visited
	if r.x.Undecided != "" {
		c.Undecided(rule, key, r.fn.Pos(), "%s", r.x.Undecided)
		return
	}
	if len(r.scopeBad) > 0 {
		b := r.scopeBad[0]
		c.Bad(rule, key, b.pos, b.trail, "%s: %s", r.fn.Name, b.msg)
		return
	}
	c.OK(rule, key, r.fn.Pos(), "newScope/releaseScope balance on every normal path (%d push site(s), %d pop site(s) incl. deferred)", len(r.pushSites), len(r.popSites))
}

func reportFields(c *an.Ctx, rule string, r *pairResult, only map[string]bool) {
	var fs []string
	for f := range r.fieldSeen {
		fs = append(fs, f)
	}
	sort.Strings(fs)
	for _, f := range fs {
		if only != nil && !only[f] {
			continue
		}
		key := r.fn.Name + "/field:" + strings.SplitN(f, ".", 2)[1]
		if b, bad := r.fieldBad[f]; bad {
			c.Bad(rule, key, b.pos, b.trail, "%s: %s", r.fn.Name, b.msg)
		} else if b, late := r.lateDefer[f]; late {
			c.Bad(rule, key, b.pos, b.trail, "%s: %s", r.fn.Name, b.msg)
		} else {
			c.OK(rule, key, r.fn.Pos(), "%s is saved before it is changed and restored (or restored by defer) on every normal path", f)
		}
	}
}
