// Package rules holds one file per property (C01 … C20).  Each rule function inspects the
// type-checked source of /repo and records obligations on the Ctx.
package rules

import (
	"go/types"
	"sort"

	"jetverif/an"
)

type Property struct {
	ID   string
	Run  func(c *an.Ctx)
	Meta an.Meta
	// Mutants are the liveness self-test of the property: textual single-site edits of the
	// current tree, applied through an in-memory overlay (never on disk), each of which must make
	// the named rule report a violation.
	Mutants []Mutant
}

type Mutant struct {
	Name string // what is broken
	File string // path relative to the repository root
	Old  string // must occur exactly once in File (else the mutant is skipped and counted)
	New  string
	More []Edit // further edits of the same mutant (multi-site changes)
	Rule string // prefix of the obligation key that must be reported as violated; "-" = behaviour-preserving variant, every rule must stay silent
}

type Edit struct{ File, Old, New string }

var registry = map[string]*Property{}

func register(p *Property) { registry[p.ID] = p }

func Get(id string) *Property { return registry[id] }

func IDs() []string {
	var ids []string
	for id := range registry {
		ids = append(ids, id)
	}
	sort.Strings(ids)
	return ids
}

var commonTrusted = []string{
	"go/parser, go/types, golang.org/x/tools v0.29.0 (go/packages, go/cfg) — the front end the checker reads the source with",
	"the Go standard library and github.com/CloudyKit/fastprinter behave as documented (their source is not analysed)",
}

func isErrorType(t types.Type) bool {
	return t != nil && types.Identical(t, types.Universe.Lookup("error").Type())
}
