// Package rules holds one file per property (C01 … C20).  Each rule function inspects the
// type-checked source of /repo and records obligations on the Ctx.
package rules

import (
	"go/ast"
	"go/types"
	"sort"

	"jetverif/an"
)

type Property struct {
	ID   string
	Run  func(c *an.Ctx)
	Meta an.Meta
	// Mutants are the liveness self-test of the property: textual single-site edits of the
	// current tree, applied through an in-memory overlay (never on disk), each of which must make
	// the named rule report a violation.
	Mutants []Mutant
}

type Mutant struct {
	Name string // what is broken
	File string // path relative to the repository root
	Old  string // must occur exactly once in File (else the mutant is skipped and counted)
	New  string
	More []Edit // further edits of the same mutant (multi-site changes)
	Rule string // prefix of the obligation key that must be reported as violated; "-" = behaviour-preserving variant, every rule must stay silent
}

type Edit struct{ File, Old, New string }

var registry = map[string]*Property{}

func register(p *Property) { registry[p.ID] = p }

func Get(id string) *Property { return registry[id] }

func IDs() []string {
	var ids []string
	for id := range registry {
		ids = append(ids, id)
	}
	sort.Strings(ids)
	return ids
}

var commonTrusted = []string{
	"go/parser, go/types, golang.org/x/tools v0.29.0 (go/packages, go/cfg) — the front end the checker reads the source with",
	"the Go standard library and github.com/CloudyKit/fastprinter behave as documented (their source is not analysed)",
}

func isErrorType(t types.Type) bool {
	return t != nil && types.Identical(t, types.Universe.Lookup("error").Type())
}

// armInspect walks the statements of one arm (a case clause, or any subtree) of fn like ast.Inspect, and
// also the bodies of the new helpers (see an/known.go) called from it, once each: a rule about "the
// range arm of executeList" keeps seeing the arm after its body was moved into a method.
func armInspect(fn *an.Fn, root ast.Node, visit func(ast.Node) bool) {
	seen := map[*an.Fn]bool{}
	var walk func(n ast.Node)
	walk = func(n ast.Node) {
		var later []*an.Fn
		ast.Inspect(n, func(m ast.Node) bool {
			if m == nil {
				return true
			}
			if !visit(m) {
				return false
			}
			if call, ok := m.(*ast.CallExpr); ok && fn.P != nil {
				if h := fn.P.NewHelperCallee(fn, call); h != nil && !seen[h] {
					seen[h] = true
					later = append(later, h)
				}
			}
			return true
		})
		for _, h := range later {
			walk(h.Body)
		}
	}
	walk(root)
}

// inArm reports whether node n belongs to the arm: lexically, or through a new helper called from it.
func inArm(fn *an.Fn, arm ast.Node, n ast.Node) bool {
	if arm == nil || n == nil {
		return false
	}
	if arm.Pos() <= n.Pos() && n.End() <= arm.End() {
		return true
	}
	owner := fn.P.OwnerFn(n.Pos())
	if owner == nil || !fn.P.IsNewHelper(owner.Root()) {
		return false
	}
	found := false
	armInspect(fn, arm, func(m ast.Node) bool {
		if call, ok := m.(*ast.CallExpr); ok && fn.P.NewHelperCallee(fn, call) == owner.Root() {
			found = true
		}
		return !found
	})
	return found
}
