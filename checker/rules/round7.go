package rules

import (
	"go/ast"
	"go/token"
	"go/types"
	"strings"

	"jetverif/an"
)

// c02parserLoops (C02.eof, continued): once the lexer has sent its last token (EOF or an error) and closed
// the channel, every further token the parser asks for is the zero item.  A parser loop that consumes
// tokens must therefore be able to end there: its condition tests for itemEOF, or its body can fail
// (it calls something from which Template.errorf is reachable — expect…, unexpected, a parse function) or
// leaves by return/break under a test.  A loop that only skips tokens until some other token turns up
// spins for ever on a truncated template.
func c02parserLoops(c *an.Ctx) {
	p := c.P
	canFail := p.FnsReaching("(*jet.Template).errorf")
	tmpl := p.LookupType(p.Jet, "Template")
	n := 0
	for _, f := range p.Units() {
		if f.Pkg != p.Jet || f.Body == nil || f.Sig == nil || f.Sig.Recv() == nil || an.NamedOf(f.Sig.Recv().Type()) != tmpl {
			continue
		}
		info := f.Info()
		consuming := func(call *ast.CallExpr) bool {
			switch an.CalleeName(info, call) {
			case "(*jet.Template).next", "(*jet.Template).nextNonSpace":
				return true
			}
			return false
		}
		k := 0
		an.InspectOwn(f, func(nd ast.Node) bool {
			fs, ok := nd.(*ast.ForStmt)
			if !ok {
				return true
			}
			consumes := false
			ast.Inspect(fs, func(m ast.Node) bool {
				if call, ok := m.(*ast.CallExpr); ok && consuming(call) {
					consumes = true
				}
				return !consumes
			})
			if !consumes {
				return true
			}
			n++
			k++
			key := f.Name + "/token-loop"
			if k > 1 {
				key += "#" + itoa(k)
			}
			ends := false
			if fs.Cond != nil && strings.Contains(an.Str(fs.Cond), "itemEOF") {
				ends = true
			}
			// `for <token>.typ == itemX` goes on only while one particular kind of token turns up: the zero item
			// (and EOF) ends it
			if fs.Cond != nil {
				for _, cj := range conjuncts(fs.Cond) {
					if b, ok := an.Unparen(cj).(*ast.BinaryExpr); ok && b.Op == token.EQL {
						for _, side := range []ast.Expr{b.X, b.Y} {
							if id, ok := an.Unparen(side).(*ast.Ident); ok && strings.HasPrefix(id.Name, "item") && id.Name != "itemError" {
								if _, isConst := an.ObjOf(info, id).(*types.Const); isConst {
									ends = true
								}
							}
						}
					}
				}
			}
			ast.Inspect(fs.Body, func(m ast.Node) bool {
				switch x := m.(type) {
				case *ast.FuncLit:
					return false
				case *ast.CallExpr:
					if g := p.FnByObj[an.Callee(info, x)]; g != nil && (canFail[g] || p.NoReturn(g)) {
						ends = true
					}
				case *ast.ReturnStmt:
					ends = true
				case *ast.BranchStmt:
					if x.Tok == token.BREAK || x.Tok == token.GOTO {
						ends = true
					}
				case *ast.CaseClause:
					for _, e := range x.List {
						if strings.Contains(an.Str(e), "itemEOF") || strings.Contains(an.Str(e), "itemError") {
							ends = true
						}
					}
				}
				return !ends
			})
			c.Check(ends, "C02.eof", key, fs.Pos(), "the token loop can end at the end of the input (EOF test, a failing call, or a conditional exit)",
				"a loop in "+f.Name+" consumes tokens until some other token turns up, with no test for the end of the input and nothing in its body that can fail: on a truncated template the parser spins for ever")
			return true
		})
	}
	c.Expect("C02.eof", "token-consuming loops in the parser", n, 4)
}

// c02drainAgrees (C02.drain, continued): the lexer goroutine ends only if each of its sends on the item channel
// can complete after the parser stopped listening.  Either drain() receives until the channel is closed
// (then plain sends are fine), or it signals through another channel — then *every* send, also the one
// that reports an error, must select on that channel.
func c02drainAgrees(c *an.Ctx) {
	p := c.P
	dr := c.Fn("C02.drain", "(*lexer).drain")
	if dr == nil {
		return
	}
	info := dr.Info()
	receives := false
	an.InspectOwn(dr, func(n ast.Node) bool {
		switch x := n.(type) {
		case *ast.RangeStmt:
			if p.FieldKey(info, x.X) == "lexer.items" {
				receives = true
			}
		case *ast.UnaryExpr:
			if x.Op == token.ARROW && p.FieldKey(info, x.X) == "lexer.items" {
				if _, inFor := enclosingFor(dr, x); inFor {
					receives = true
				}
			}
		}
		return true
	})
	key := "(*lexer).drain/sends-complete"
	if receives {
		c.OK("C02.drain", key, dr.Pos(), "drain receives until the item channel is closed: every pending send of the lexer completes")
		return
	}
	// no receiving drain: all sends must be guarded by a select
	bad := token.NoPos
	where := ""
	for _, f := range p.Units() {
		if f.Pkg != p.Jet || f.Body == nil {
			continue
		}
		finfo := f.Info()
		an.InspectOwn(f, func(n ast.Node) bool {
			send, ok := n.(*ast.SendStmt)
			if !ok || p.FieldKey(finfo, send.Chan) != "lexer.items" {
				return true
			}
			inSelect := false
			for _, enc := range an.EnclosingStmts(f, send) {
				if cc, ok := enc.(*ast.CommClause); ok && cc.Comm == ast.Stmt(send) {
					inSelect = true
				}
			}
			if !inSelect && !bad.IsValid() {
				bad, where = send.Pos(), f.Name
			}
			return true
		})
	}
	c.Check(!bad.IsValid(), "C02.drain", key, dr.Pos(), "drain signals the lexer and every send selects on that signal",
		"drain() no longer receives from the item channel, but "+where+" still sends on it unconditionally: after a parse error that send blocks for ever and the lexer goroutine is never released")
}

func enclosingFor(f *an.Fn, n ast.Node) (ast.Node, bool) {
	for _, enc := range an.EnclosingStmts(f, n) {
		switch enc.(type) {
		case *ast.ForStmt, *ast.RangeStmt:
			return enc, true
		}
	}
	return nil, false
}

// c03sourceOnlyLexed (C03.identity, continued): what is rendered for literal text is the text of the parsed
// TextNodes.  The source of a template (Template.text) contains comments, trim markers and actions; it is
// handed to the lexer and shown in nothing else — in particular it is never written to an output writer.
func c03sourceOnlyLexed(c *an.Ctx) {
	p := c.P
	parse := p.Parse()
	n := 0
	for _, f := range p.Units() {
		if f.Pkg != p.Jet || f.Body == nil {
			continue
		}
		info := f.Info()
		k := 0
		an.InspectOwn(f, func(nd ast.Node) bool {
			sel, ok := nd.(*ast.SelectorExpr)
			if !ok || p.FieldKey(info, sel) != "Template.text" {
				return true
			}
			n++
			k++
			key := f.Name + "/source-text"
			if k > 1 {
				key += "#" + itoa(k)
			}
			// allowed: inside the parser (the lexer gets it), or as the target of a store (constructors)
			okUse := parse[f] || parse[f.Root()]
			for _, enc := range an.EnclosingStmts(f, sel) {
				if as, isAs := enc.(*ast.AssignStmt); isAs {
					for _, l := range as.Lhs {
						if l == ast.Expr(sel) {
							okUse = true
						}
					}
				}
			}
			c.Check(okUse, "C03.identity", key, sel.Pos(), "the template's source is only handed to the lexer",
				f.Name+" uses the template's source text outside the parser: the source holds comments, trim markers and actions, and what is rendered must come from the parsed text nodes")
			return true
		})
	}
	if n == 0 {
		c.OK("C03.identity", "Template.text/source-text", token.NoPos, "the template's source is stored at construction and read nowhere else")
	}
}

// c05noSecondLookup (C05.rangers, continued): an entry produced by ranging over a map is the pair the
// iteration itself yields (MapIter.Key/Value).  Looking the value up again by key (MapIndex) finds nothing
// for a key that is not equal to itself (NaN) and something else after a concurrent edit.
func c05noSecondLookup(c *an.Ctx) {
	p := c.P
	iface := p.Iface("", "Ranger")
	if iface == nil {
		return
	}
	n := 0
	for i := 0; i < iface.NumMethods(); i++ {
		if iface.Method(i).Name() != "Range" {
			continue
		}
		for _, f := range p.Implementations(iface.Method(i)) {
			if f.Body == nil {
				continue
			}
			n++
			calls := p.CallsIn(f, "(reflect.Value).MapIndex", "(reflect.Value).MapKeys")
			pos := f.Pos()
			if len(calls) > 0 {
				pos = calls[0].Pos()
			}
			c.Check(len(calls) == 0, "C05.rangers", f.Name+"/entry-from-iteration", pos, "the entry comes from the iteration itself",
				f.Name+" looks a map entry up by key (MapIndex / MapKeys) while ranging: the value of a key that is not equal to itself (NaN) is not found, so the body runs with nothing bound")
		}
	}
	c.Expect("C05.rangers", "Range implementations", n, 4)
}

// c12writerAsGiven (C12.stream, continued): output produced before a failing action has reached the caller's
// writer only if Execute renders into that writer itself: what it stores into the runtime's Writer is its
// own writer parameter, not a buffer in front of it that is flushed at the end.
func c12writerAsGiven(c *an.Ctx) {
	p := c.P
	ex := c.Fn("C12.stream", "(*Template).Execute")
	if ex == nil {
		return
	}
	info := ex.Info()
	var wparam types.Object
	if ex.Sig != nil {
		for i := 0; i < ex.Sig.Params().Len(); i++ {
			if an.TypeName(ex.Sig.Params().At(i).Type()) == "io.Writer" {
				wparam = ex.Sig.Params().At(i)
			}
		}
	}
	n, bad := 0, token.NoPos
	var isParam func(e ast.Expr, depth int) bool
	isParam = func(e ast.Expr, depth int) bool {
		id, ok := an.Unparen(e).(*ast.Ident)
		if !ok || depth > 3 {
			return false
		}
		obj := an.ObjOf(info, id)
		if obj == wparam {
			return len(an.LocalDefs(ex, obj)) == 0
		}
		// a helper's parameter bound to it
		if v, ok := obj.(*types.Var); ok {
			binds := p.HelperBinds(ex)[v]
			if len(binds) == 0 {
				return false
			}
			for _, b := range binds {
				if !isParam(b.Arg, depth+1) {
					return false
				}
			}
			return true
		}
		return false
	}
	an.InspectOwn(ex, func(nd ast.Node) bool {
		an.Assigns(nd, func(lhs, rhs ast.Expr, _ token.Token) {
			if rhs == nil || p.FieldKey(info, lhs) != "escapeeWriter.Writer" {
				return
			}
			n++
			if !isParam(rhs, 0) && !bad.IsValid() {
				bad = lhs.Pos()
			}
		})
		return true
	})
	if n == 0 {
		c.Anchor("C12.stream", "store of the writer parameter into Runtime.Writer in Template.Execute")
		return
	}
	c.Check(!bad.IsValid(), "C12.stream", "(*Template).Execute/writer-as-given", ex.Pos(), "Execute renders into the writer it was given",
		"Execute stores something other than its writer parameter into Runtime.Writer (a buffer in front of it?): what was rendered before a failing action is no longer in the caller's writer when the error is returned")
}

// c16defaultCache (C16.put, continued): the Set relies on its Cache returning what was Put; the default
// implementation must do so for every template: Put reaches the store on every path, with the key and the
// template it was given.
func c16defaultCache(c *an.Ctx) {
	p := c.P
	put := c.Fn("C16.put", "(*cache).Put")
	if put == nil {
		return
	}
	info := put.Info()
	stored := false
	x := p.NewExplorer(put, an.Hooks{Call: func(x *an.Explorer, call *ast.CallExpr, st *an.State) {
		name := an.CalleeName(info, call)
		if strings.HasSuffix(name, ".Store") || strings.HasSuffix(name, ".LoadOrStore") {
			if len(call.Args) == 2 && an.Norm(put, call.Args[0]) == "$p0" && an.Norm(put, call.Args[1]) == "$p1" {
				st.Set("stored", "1")
				stored = true
			}
		}
	}, PreAssign: func(x *an.Explorer, lhs, rhs ast.Expr, stmt ast.Node, st *an.State) {
		if ix, ok := an.Unparen(lhs).(*ast.IndexExpr); ok && rhs != nil && an.Norm(put, ix.Index) == "$p0" && an.Norm(put, rhs) == "$p1" {
			st.Set("stored", "1")
			stored = true
		}
	}})
	x.Run(nil)
	c.States += x.Visited
	always := stored && x.Undecided == ""
	for _, ex := range x.Exits {
		if ex.Kind == an.ExitReturn && ex.State.Get("stored") == "" {
			always = false
		}
	}
	c.Check(always, "C16.put", "(*cache).Put/always-stores", put.Pos(), "the default cache stores every template it is given, under the key it is given",
		"the default cache's Put can return without having stored the template under its key (a size limit? a condition on the template?): a later GetTemplate of that name loads and parses again and returns a different template")
}

// c20freshNodes (C20.walk, continued): the tree is a tree: every node constructor of the parser returns a
// node allocated by this very call, so no node is ever reachable through two parents (it would be visited
// twice and carry one position for two places).
func c20freshNodes(c *an.Ctx) {
	p := c.P
	n := 0
	for _, f := range p.Units() {
		if f.Pkg != p.Jet || f.Body == nil || f.Sig == nil || f.Obj == nil || !strings.HasPrefix(f.Obj.Name(), "new") || f.Sig.Results().Len() != 1 {
			continue
		}
		// constructors of node types: the result type is a pointer to a struct embedding NodeBase (or the Expression/Node interface)
		rt := f.Sig.Results().At(0).Type()
		if !c20isNodeType(rt) {
			continue
		}
		info := f.Info()
		n++
		ok := true
		pos := f.Pos()
		ast.Inspect(f.Body, func(m ast.Node) bool {
			if _, isLit := m.(*ast.FuncLit); isLit {
				return false
			}
			ret, isRet := m.(*ast.ReturnStmt)
			if !isRet || len(ret.Results) != 1 {
				return true
			}
			if !c20freshExpr(f, info, ret.Results[0], 0) {
				ok = false
				pos = ret.Pos()
			}
			return true
		})
		c.Check(ok, "C20.walk", f.Name+"/fresh-node", pos, "the constructor returns a node allocated by this call",
			f.Name+" can return a node that was not allocated by this call (kept in a field, handed in as an argument): the same node then hangs below two parents, Walk visits it twice and its position is wrong for one of them")
	}
	c.Expect("C20.walk", "node constructors", n, 25)
}

func c20isNodeType(t types.Type) bool {
	if ptr, ok := t.(*types.Pointer); ok {
		if named, ok := ptr.Elem().(*types.Named); ok {
			if st, ok := named.Underlying().(*types.Struct); ok {
				for i := 0; i < st.NumFields(); i++ {
					f := st.Field(i)
					if f.Embedded() && (f.Name() == "NodeBase" || f.Name() == "binaryExprNode" || f.Name() == "BranchNode") {
						return true
					}
				}
			}
		}
	}
	return false
}

// c20freshExpr: &T{…}, or a local whose every definition is one (fields may be set afterwards).
func c20freshExpr(f *an.Fn, info *types.Info, e ast.Expr, depth int) bool {
	e = an.Unparen(e)
	if u, ok := e.(*ast.UnaryExpr); ok && u.Op == token.AND {
		_, isLit := an.Unparen(u.X).(*ast.CompositeLit)
		return isLit
	}
	if id, ok := e.(*ast.Ident); ok && depth < 3 {
		obj := an.ObjOf(info, id)
		if _, isParam := an.IsParam(f, obj); isParam {
			return false
		}
		defs := an.LocalDefs(f, obj)
		if len(defs) == 0 {
			return false
		}
		for _, d := range defs {
			if d == nil || !c20freshExpr(f, info, d, depth+1) {
				return false
			}
		}
		return true
	}
	return false
}

// c08paramScope (C08.params, continued): the values of a block's parameters — the yield's arguments and the
// declared defaults — are evaluated one after the other *inside* the parameter scope, so that a default can
// refer to a parameter bound before it (`block pair(x=1, y=x+1)`; at a definition site the defaults are the
// arguments).  (C18.once, continued): that scope is opened only where there are parameters — Runtime.YieldBlock
// runs the same block in the caller's scope, and a block without parameters must behave the same both ways.
func c08paramScope(c *an.Ctx, rule string) {
	p := c.P
	f := c.Fn(rule, "(*Runtime).executeYieldBlock")
	if f == nil {
		return
	}
	info := f.Info()
	unscoped := token.NoPos
	nEval := 0
	x := p.NewExplorer(f, an.Hooks{Call: func(x *an.Explorer, call *ast.CallExpr, st *an.State) {
		switch an.CalleeName(info, call) {
		case "(*jet.Runtime).newScope":
			st.Set("scoped", "1")
		case "(*jet.Runtime).evalPrimaryExpressionGroup":
			if len(call.Args) == 1 && p.FieldKey(info, call.Args[0]) == "BlockParameter.Expression" {
				nEval++
				if st.Get("scoped") == "" && !unscoped.IsValid() {
					unscoped = call.Pos()
				}
			}
		}
	}})
	x.Run(nil)
	c.States += x.Visited
	if x.Undecided != "" {
		c.Undecided(rule, "(*Runtime).executeYieldBlock/parameter-scope", f.Pos(), "%s", x.Undecided)
		return
	}
	if rule == "C08.params" {
		c.Check(nEval > 0 && !unscoped.IsValid(), rule, "(*Runtime).executeYieldBlock/evaluated-in-parameter-scope", f.Pos(), "argument and default expressions are evaluated after the parameter scope was opened",
			"executeYieldBlock evaluates a parameter's expression before the parameter scope is open: a default that refers to an earlier parameter (block pair(x=1, y=x+1)) no longer finds it at the block's definition site — or finds a variable of the caller that happens to have the same name")
		return
	}
	always := true
	for _, ex := range x.Exits {
		if ex.Kind == an.ExitReturn && ex.State.Get("scoped") == "" {
			always = false
		}
	}
	c.Check(!always, rule, "(*Runtime).executeYieldBlock/scope-only-for-parameters", f.Pos(), "a block without parameters runs in the scope of its caller",
		"executeYieldBlock opens a scope on every path: a parameterless block rendered by {{yield}} then keeps what its body declares through Let/SetOrLet to itself, while the same block rendered by Runtime.YieldBlock (which opens none) leaves it with the caller")
}

// c15absoluteNotJoined (C15.sites, continued): a relative name is resolved against the directory of the
// referring template; an absolute one is not — joining it to that directory would glue it below it
// (path.Join concatenates).  The join with the sibling's directory lies where the name is known not to be
// absolute.
func c15absoluteNotJoined(c *an.Ctx) {
	p := c.P
	f := c.Fn("C15.sites", "(*Set).getSiblingTemplate")
	if f == nil || f.Sig == nil || f.Sig.Params().Len() < 2 {
		return
	}
	info := f.Info()
	nameParam, sibParam := f.Sig.Params().At(0), f.Sig.Params().At(1)
	// (a helper's parameter stands for what getSiblingTemplate binds it to)
	resolveObj := func(id *ast.Ident) types.Object {
		obj := an.ObjOf(info, id)
		for depth := 0; depth < 3; depth++ {
			v, ok := obj.(*types.Var)
			if !ok {
				break
			}
			binds := p.HelperBinds(f)[v]
			if len(binds) != 1 {
				break
			}
			bid, ok := an.Unparen(binds[0].Arg).(*ast.Ident)
			if !ok {
				break
			}
			obj = an.ObjOf(info, bid)
		}
		return obj
	}
	mentions := func(e ast.Expr, v *types.Var, depth int) bool {
		found := false
		var walk func(e ast.Expr, depth int)
		walk = func(e ast.Expr, depth int) {
			ast.Inspect(e, func(n ast.Node) bool {
				if id, ok := n.(*ast.Ident); ok {
					obj := resolveObj(id)
					if obj == types.Object(v) {
						found = true
					} else if lv, ok := obj.(*types.Var); ok && depth < 3 && !lv.IsField() && lv.Parent() != lv.Pkg().Scope() {
						for _, d := range an.LocalDefs(f, lv) {
							if d != nil {
								walk(d, depth+1)
							}
						}
					}
				}
				return !found
			})
		}
		walk(e, depth)
		return found
	}
	var absTests []ast.Expr
	an.InspectOwn(f, func(n ast.Node) bool {
		if call, ok := n.(*ast.CallExpr); ok {
			switch an.CalleeName(info, call) {
			case "path.IsAbs", "filepath.IsAbs":
				if len(call.Args) == 1 {
					if id, ok := an.Unparen(call.Args[0]).(*ast.Ident); ok && resolveObj(id) == types.Object(nameParam) {
						absTests = append(absTests, call)
					}
				}
			case "strings.HasPrefix":
				if len(call.Args) == 2 {
					if id, ok := an.Unparen(call.Args[0]).(*ast.Ident); ok && resolveObj(id) == types.Object(nameParam) {
						if tv, ok := info.Types[call.Args[1]]; ok && tv.Value != nil && tv.Value.ExactString() == `"/"` {
							absTests = append(absTests, call)
						}
					}
				}
			}
		}
		return true
	})
	bad := token.NoPos
	nJoin := 0
	x := p.NewExplorer(f, an.Hooks{Call: func(x *an.Explorer, call *ast.CallExpr, st *an.State) {
		if name := an.CalleeName(info, call); name != "path.Join" && name != "filepath.Join" {
			return
		}
		withSib, withName := false, false
		for _, a := range call.Args {
			if mentions(a, sibParam, 0) {
				withSib = true
			}
			if mentions(a, nameParam, 0) {
				withName = true
			}
		}
		if !withSib || !withName {
			return
		}
		nJoin++
		relative := false
		for _, t := range absTests {
			if v, known := x.Truth(t, st); known && !v {
				relative = true
			}
		}
		if !relative && !bad.IsValid() {
			bad = call.Pos()
		}
	}})
	x.Run(nil)
	c.States += x.Visited
	if nJoin == 0 {
		c.Anchor("C15.sites", "join of a relative name with the referring template's directory in getSiblingTemplate")
		return
	}
	c.Check(!bad.IsValid() && x.Undecided == "", "C15.sites", "(*Set).getSiblingTemplate/absolute-not-joined", f.Pos(), "only a name known not to be absolute is joined to the referring template's directory",
		"getSiblingTemplate joins the name to the directory of the referring template without knowing that it is relative: path.Join concatenates, so {{extends \"/layouts/base.jet\"}} in /pages/deep/home.jet asks for /pages/deep/layouts/base.jet")
}

// devModeOnlyLookup (C16.probe / C17.steps, continued): development mode is a cache policy — "every lookup
// re-reads the loader".  Nothing that evaluates a template looks at it: the same template with the same data
// renders the same bytes, and isset() and the two-value lookup answer the same, whatever the mode.
func devModeOnlyLookup(c *an.Ctx, rule string) {
	p := c.P
	eval := p.Eval()
	lookups := p.Reach(p.Fn("(*Set).GetTemplate"), p.Fn("(*Set).Parse"))
	n := 0
	for _, f := range p.Units() {
		if f.Pkg != p.Jet || f.Body == nil {
			continue
		}
		info := f.Info()
		k := 0
		an.InspectOwn(f, func(nd ast.Node) bool {
			sel, ok := nd.(*ast.SelectorExpr)
			if !ok || p.FieldKey(info, sel) != "Set.developmentMode" {
				return true
			}
			n++
			k++
			key := f.Name + "/development-mode"
			if k > 1 {
				key += "#" + itoa(k)
			}
			inEvalOnly := (eval[f] || eval[f.Root()]) && !lookups[f] && !lookups[f.Root()]
			c.Check(!inEvalOnly, rule, key, sel.Pos(), "development mode is consulted by the template lookup only",
				f.Name+" lets the evaluation of a template depend on development mode: the mode is a cache policy, and what a template renders — and what isset() and `v, ok := m[k]` answer — must not change with it")
			return true
		})
	}
	c.Expect(rule, "reads of Set.developmentMode", n, 2)
}
