package rules

import (
	"go/ast"
	"go/token"
	"go/types"
	"sort"
	"strings"

	"jetverif/an"
)

// c02parserLoops (C02.eof, continued): once the lexer has sent its last token (EOF or an error) and closed
// the channel, every further token the parser asks for is the zero item.  A parser loop that consumes
// tokens must therefore be able to end there: its condition tests for itemEOF, or its body can fail
// (it calls something from which Template.errorf is reachable — expect…, unexpected, a parse function) or
// leaves by return/break under a test.  A loop that only skips tokens until some other token turns up
// spins for ever on a truncated template.
func c02parserLoops(c *an.Ctx) {
	p := c.P
	canFail := p.FnsReaching("(*jet.Template).errorf")
	tmpl := p.LookupType(p.Jet, "Template")
	n := 0
	for _, f := range p.Units() {
		if f.Pkg != p.Jet || f.Body == nil || f.Sig == nil || f.Sig.Recv() == nil || an.NamedOf(f.Sig.Recv().Type()) != tmpl {
			continue
		}
		info := f.Info()
		consuming := func(call *ast.CallExpr) bool {
			switch an.CalleeName(info, call) {
			case "(*jet.Template).next", "(*jet.Template).nextNonSpace":
				return true
			}
			return false
		}
		k := 0
		an.InspectOwn(f, func(nd ast.Node) bool {
			fs, ok := nd.(*ast.ForStmt)
			if !ok {
				return true
			}
			consumes := false
			ast.Inspect(fs, func(m ast.Node) bool {
				if call, ok := m.(*ast.CallExpr); ok && consuming(call) {
					consumes = true
				}
				return !consumes
			})
			if !consumes {
				return true
			}
			n++
			k++
			key := f.Name + "/token-loop"
			if k > 1 {
				key += "#" + itoa(k)
			}
			ends := false
			if fs.Cond != nil && strings.Contains(an.Str(fs.Cond), "itemEOF") {
				ends = true
			}
			// `for <token>.typ == itemX` goes on only while one particular kind of token turns up: the zero item
			// (and EOF) ends it
			if fs.Cond != nil {
				for _, cj := range conjuncts(fs.Cond) {
					if b, ok := an.Unparen(cj).(*ast.BinaryExpr); ok && b.Op == token.EQL {
						for _, side := range []ast.Expr{b.X, b.Y} {
							if id, ok := an.Unparen(side).(*ast.Ident); ok && strings.HasPrefix(id.Name, "item") && id.Name != "itemError" {
								if _, isConst := an.ObjOf(info, id).(*types.Const); isConst {
									ends = true
								}
							}
						}
					}
				}
			}
			ast.Inspect(fs.Body, func(m ast.Node) bool {
				switch x := m.(type) {
				case *ast.FuncLit:
					return false
				case *ast.CallExpr:
					if g := p.FnByObj[an.Callee(info, x)]; g != nil && (canFail[g] || p.NoReturn(g)) {
						ends = true
					}
				case *ast.ReturnStmt:
					ends = true
				case *ast.BranchStmt:
					if x.Tok == token.BREAK || x.Tok == token.GOTO {
						ends = true
					}
				case *ast.CaseClause:
					for _, e := range x.List {
						if strings.Contains(an.Str(e), "itemEOF") || strings.Contains(an.Str(e), "itemError") {
							ends = true
						}
					}
				}
				return !ends
			})
			c.Check(ends, "C02.eof", key, fs.Pos(), "the token loop can end at the end of the input (EOF test, a failing call, or a conditional exit)",
				"a loop in "+f.Name+" consumes tokens until some other token turns up, with no test for the end of the input and nothing in its body that can fail: on a truncated template the parser spins for ever")
			return true
		})
	}
	c.Expect("C02.eof", "token-consuming loops in the parser", n, 4)
}

// c02drainAgrees (C02.drain, continued): the lexer goroutine ends only if each of its sends on the item channel
// can complete after the parser stopped listening.  Either drain() receives until the channel is closed
// (then plain sends are fine), or it signals through another channel — then *every* send, also the one
// that reports an error, must select on that channel.
func c02drainAgrees(c *an.Ctx) {
	p := c.P
	dr := c.Fn("C02.drain", "(*lexer).drain")
	if dr == nil {
		return
	}
	info := dr.Info()
	receives := false
	an.InspectOwn(dr, func(n ast.Node) bool {
		switch x := n.(type) {
		case *ast.RangeStmt:
			if p.FieldKey(info, x.X) == "lexer.items" {
				receives = true
			}
		case *ast.UnaryExpr:
			if x.Op == token.ARROW && p.FieldKey(info, x.X) == "lexer.items" {
				if _, inFor := enclosingFor(dr, x); inFor {
					receives = true
				}
			}
		}
		return true
	})
	key := "(*lexer).drain/sends-complete"
	if receives {
		c.OK("C02.drain", key, dr.Pos(), "drain receives until the item channel is closed: every pending send of the lexer completes")
		return
	}
	// no receiving drain: all sends must be guarded by a select
	bad := token.NoPos
	where := ""
	for _, f := range p.Units() {
		if f.Pkg != p.Jet || f.Body == nil {
			continue
		}
		finfo := f.Info()
		an.InspectOwn(f, func(n ast.Node) bool {
			send, ok := n.(*ast.SendStmt)
			if !ok || p.FieldKey(finfo, send.Chan) != "lexer.items" {
				return true
			}
			inSelect := false
			for _, enc := range an.EnclosingStmts(f, send) {
				if cc, ok := enc.(*ast.CommClause); ok && cc.Comm == ast.Stmt(send) {
					inSelect = true
				}
			}
			if !inSelect && !bad.IsValid() {
				bad, where = send.Pos(), f.Name
			}
			return true
		})
	}
	c.Check(!bad.IsValid(), "C02.drain", key, dr.Pos(), "drain signals the lexer and every send selects on that signal",
		"drain() no longer receives from the item channel, but "+where+" still sends on it unconditionally: after a parse error that send blocks for ever and the lexer goroutine is never released")
}

func enclosingFor(f *an.Fn, n ast.Node) (ast.Node, bool) {
	for _, enc := range an.EnclosingStmts(f, n) {
		switch enc.(type) {
		case *ast.ForStmt, *ast.RangeStmt:
			return enc, true
		}
	}
	return nil, false
}

// c03sourceOnlyLexed (C03.identity, continued): what is rendered for literal text is the text of the parsed
// TextNodes.  The source of a template (Template.text) contains comments, trim markers and actions; it is
// handed to the lexer and shown in nothing else — in particular it is never written to an output writer.
func c03sourceOnlyLexed(c *an.Ctx) {
	p := c.P
	parse := p.Parse()
	n := 0
	for _, f := range p.Units() {
		if f.Pkg != p.Jet || f.Body == nil {
			continue
		}
		info := f.Info()
		k := 0
		an.InspectOwn(f, func(nd ast.Node) bool {
			sel, ok := nd.(*ast.SelectorExpr)
			if !ok || p.FieldKey(info, sel) != "Template.text" {
				return true
			}
			n++
			k++
			key := f.Name + "/source-text"
			if k > 1 {
				key += "#" + itoa(k)
			}
			// allowed: inside the parser (the lexer gets it), or as the target of a store (constructors)
			okUse := parse[f] || parse[f.Root()]
			for _, enc := range an.EnclosingStmts(f, sel) {
				if as, isAs := enc.(*ast.AssignStmt); isAs {
					for _, l := range as.Lhs {
						if l == ast.Expr(sel) {
							okUse = true
						}
					}
				}
			}
			c.Check(okUse, "C03.identity", key, sel.Pos(), "the template's source is only handed to the lexer",
				f.Name+" uses the template's source text outside the parser: the source holds comments, trim markers and actions, and what is rendered must come from the parsed text nodes")
			return true
		})
	}
	if n == 0 {
		c.OK("C03.identity", "Template.text/source-text", token.NoPos, "the template's source is stored at construction and read nowhere else")
	}
}

// c05noSecondLookup (C05.rangers, continued): an entry produced by ranging over a map is the pair the
// iteration itself yields (MapIter.Key/Value).  Looking the value up again by key (MapIndex) finds nothing
// for a key that is not equal to itself (NaN) and something else after a concurrent edit.
func c05noSecondLookup(c *an.Ctx) {
	p := c.P
	iface := p.Iface("", "Ranger")
	if iface == nil {
		return
	}
	n := 0
	for i := 0; i < iface.NumMethods(); i++ {
		if iface.Method(i).Name() != "Range" {
			continue
		}
		for _, f := range p.Implementations(iface.Method(i)) {
			if f.Body == nil {
				continue
			}
			n++
			calls := p.CallsIn(f, "(reflect.Value).MapIndex", "(reflect.Value).MapKeys")
			pos := f.Pos()
			if len(calls) > 0 {
				pos = calls[0].Pos()
			}
			c.Check(len(calls) == 0, "C05.rangers", f.Name+"/entry-from-iteration", pos, "the entry comes from the iteration itself",
				f.Name+" looks a map entry up by key (MapIndex / MapKeys) while ranging: the value of a key that is not equal to itself (NaN) is not found, so the body runs with nothing bound")
		}
	}
	c.Expect("C05.rangers", "Range implementations", n, 4)
}

// c12writerAsGiven (C12.stream, continued): output produced before a failing action has reached the caller's
// writer only if Execute renders into that writer itself: what it stores into the runtime's Writer is its
// own writer parameter, not a buffer in front of it that is flushed at the end.
func c12writerAsGiven(c *an.Ctx) {
	p := c.P
	ex := c.Fn("C12.stream", "(*Template).Execute")
	if ex == nil {
		return
	}
	info := ex.Info()
	var wparam types.Object
	if ex.Sig != nil {
		for i := 0; i < ex.Sig.Params().Len(); i++ {
			if an.TypeName(ex.Sig.Params().At(i).Type()) == "io.Writer" {
				wparam = ex.Sig.Params().At(i)
			}
		}
	}
	n, bad := 0, token.NoPos
	var isParam func(e ast.Expr, depth int) bool
	isParam = func(e ast.Expr, depth int) bool {
		id, ok := an.Unparen(e).(*ast.Ident)
		if !ok || depth > 3 {
			return false
		}
		obj := an.ObjOf(info, id)
		if obj == wparam {
			return len(an.LocalDefs(ex, obj)) == 0
		}
		// a helper's parameter bound to it
		if v, ok := obj.(*types.Var); ok {
			binds := p.HelperBinds(ex)[v]
			if len(binds) == 0 {
				return false
			}
			for _, b := range binds {
				if !isParam(b.Arg, depth+1) {
					return false
				}
			}
			return true
		}
		return false
	}
	an.InspectOwn(ex, func(nd ast.Node) bool {
		an.Assigns(nd, func(lhs, rhs ast.Expr, _ token.Token) {
			if rhs == nil || p.FieldKey(info, lhs) != "escapeeWriter.Writer" {
				return
			}
			n++
			if !isParam(rhs, 0) && !bad.IsValid() {
				bad = lhs.Pos()
			}
		})
		return true
	})
	if n == 0 {
		c.Anchor("C12.stream", "store of the writer parameter into Runtime.Writer in Template.Execute")
		return
	}
	c.Check(!bad.IsValid(), "C12.stream", "(*Template).Execute/writer-as-given", ex.Pos(), "Execute renders into the writer it was given",
		"Execute stores something other than its writer parameter into Runtime.Writer (a buffer in front of it?): what was rendered before a failing action is no longer in the caller's writer when the error is returned")
}

// c16defaultCache (C16.put, continued): the Set relies on its Cache returning what was Put; the default
// implementation must do so for every template: Put reaches the store on every path, with the key and the
// template it was given.
func c16defaultCache(c *an.Ctx) {
	p := c.P
	put := c.Fn("C16.put", "(*cache).Put")
	if put == nil {
		return
	}
	info := put.Info()
	stored := false
	x := p.NewExplorer(put, an.Hooks{Call: func(x *an.Explorer, call *ast.CallExpr, st *an.State) {
		name := an.CalleeName(info, call)
		if strings.HasSuffix(name, ".Store") || strings.HasSuffix(name, ".LoadOrStore") {
			if len(call.Args) == 2 && an.Norm(put, call.Args[0]) == "$p0" && an.Norm(put, call.Args[1]) == "$p1" {
				st.Set("stored", "1")
				stored = true
			}
		}
	}, PreAssign: func(x *an.Explorer, lhs, rhs ast.Expr, stmt ast.Node, st *an.State) {
		if ix, ok := an.Unparen(lhs).(*ast.IndexExpr); ok && rhs != nil && an.Norm(put, ix.Index) == "$p0" && an.Norm(put, rhs) == "$p1" {
			st.Set("stored", "1")
			stored = true
		}
	}})
	x.Run(nil)
	c.States += x.Visited
	always := stored && x.Undecided == ""
	for _, ex := range x.Exits {
		if ex.Kind == an.ExitReturn && ex.State.Get("stored") == "" {
			always = false
		}
	}
	c.Check(always, "C16.put", "(*cache).Put/always-stores", put.Pos(), "the default cache stores every template it is given, under the key it is given",
		"the default cache's Put can return without having stored the template under its key (a size limit? a condition on the template?): a later GetTemplate of that name loads and parses again and returns a different template")
}

// c20freshNodes (C20.walk, continued): the tree is a tree: every node constructor of the parser returns a
// node allocated by this very call, so no node is ever reachable through two parents (it would be visited
// twice and carry one position for two places).
func c20freshNodes(c *an.Ctx) {
	p := c.P
	n := 0
	for _, f := range p.Units() {
		if f.Pkg != p.Jet || f.Body == nil || f.Sig == nil || f.Obj == nil || !strings.HasPrefix(f.Obj.Name(), "new") || f.Sig.Results().Len() != 1 {
			continue
		}
		// constructors of node types: the result type is a pointer to a struct embedding NodeBase (or the Expression/Node interface)
		rt := f.Sig.Results().At(0).Type()
		if !c20isNodeType(rt) {
			continue
		}
		info := f.Info()
		n++
		ok := true
		pos := f.Pos()
		ast.Inspect(f.Body, func(m ast.Node) bool {
			if _, isLit := m.(*ast.FuncLit); isLit {
				return false
			}
			ret, isRet := m.(*ast.ReturnStmt)
			if !isRet || len(ret.Results) != 1 {
				return true
			}
			if !c20freshExpr(f, info, ret.Results[0], 0) {
				ok = false
				pos = ret.Pos()
			}
			return true
		})
		c.Check(ok, "C20.walk", f.Name+"/fresh-node", pos, "the constructor returns a node allocated by this call",
			f.Name+" can return a node that was not allocated by this call (kept in a field, handed in as an argument): the same node then hangs below two parents, Walk visits it twice and its position is wrong for one of them")
	}
	c.Expect("C20.walk", "node constructors", n, 25)
}

func c20isNodeType(t types.Type) bool {
	if ptr, ok := t.(*types.Pointer); ok {
		if named, ok := ptr.Elem().(*types.Named); ok {
			if st, ok := named.Underlying().(*types.Struct); ok {
				for i := 0; i < st.NumFields(); i++ {
					f := st.Field(i)
					if f.Embedded() && (f.Name() == "NodeBase" || f.Name() == "binaryExprNode" || f.Name() == "BranchNode") {
						return true
					}
				}
			}
		}
	}
	return false
}

// c20freshExpr: &T{…}, or a local whose every definition is one (fields may be set afterwards).
func c20freshExpr(f *an.Fn, info *types.Info, e ast.Expr, depth int) bool {
	e = an.Unparen(e)
	if u, ok := e.(*ast.UnaryExpr); ok && u.Op == token.AND {
		_, isLit := an.Unparen(u.X).(*ast.CompositeLit)
		return isLit
	}
	if id, ok := e.(*ast.Ident); ok && depth < 3 {
		obj := an.ObjOf(info, id)
		if _, isParam := an.IsParam(f, obj); isParam {
			return false
		}
		defs := an.LocalDefs(f, obj)
		if len(defs) == 0 {
			return false
		}
		for _, d := range defs {
			if d == nil || !c20freshExpr(f, info, d, depth+1) {
				return false
			}
		}
		return true
	}
	return false
}

// c08paramScope (C08.params, continued): the values of a block's parameters — the yield's arguments and the
// declared defaults — are evaluated one after the other *inside* the parameter scope, so that a default can
// refer to a parameter bound before it (`block pair(x=1, y=x+1)`; at a definition site the defaults are the
// arguments).  (C18.once, continued): that scope is opened only where there are parameters — Runtime.YieldBlock
// runs the same block in the caller's scope, and a block without parameters must behave the same both ways.
func c08paramScope(c *an.Ctx, rule string) {
	p := c.P
	f := c.Fn(rule, "(*Runtime).executeYieldBlock")
	if f == nil {
		return
	}
	info := f.Info()
	unscoped := token.NoPos
	nEval := 0
	x := p.NewExplorer(f, an.Hooks{Call: func(x *an.Explorer, call *ast.CallExpr, st *an.State) {
		switch an.CalleeName(info, call) {
		case "(*jet.Runtime).newScope":
			st.Set("scoped", "1")
		case "(*jet.Runtime).evalPrimaryExpressionGroup":
			if len(call.Args) == 1 && p.FieldKey(info, call.Args[0]) == "BlockParameter.Expression" {
				nEval++
				if st.Get("scoped") == "" && !unscoped.IsValid() {
					unscoped = call.Pos()
				}
			}
		}
	}})
	x.Run(nil)
	c.States += x.Visited
	if x.Undecided != "" {
		c.Undecided(rule, "(*Runtime).executeYieldBlock/parameter-scope", f.Pos(), "%s", x.Undecided)
		return
	}
	if rule == "C08.params" {
		c.Check(nEval > 0 && !unscoped.IsValid(), rule, "(*Runtime).executeYieldBlock/evaluated-in-parameter-scope", f.Pos(), "argument and default expressions are evaluated after the parameter scope was opened",
			"executeYieldBlock evaluates a parameter's expression before the parameter scope is open: a default that refers to an earlier parameter (block pair(x=1, y=x+1)) no longer finds it at the block's definition site — or finds a variable of the caller that happens to have the same name")
		return
	}
	always := true
	for _, ex := range x.Exits {
		if ex.Kind == an.ExitReturn && ex.State.Get("scoped") == "" {
			always = false
		}
	}
	c.Check(!always, rule, "(*Runtime).executeYieldBlock/scope-only-for-parameters", f.Pos(), "a block without parameters runs in the scope of its caller",
		"executeYieldBlock opens a scope on every path: a parameterless block rendered by {{yield}} then keeps what its body declares through Let/SetOrLet to itself, while the same block rendered by Runtime.YieldBlock (which opens none) leaves it with the caller")
}

// c15absoluteNotJoined (C15.sites, continued): a relative name is resolved against the directory of the
// referring template; an absolute one is not — joining it to that directory would glue it below it
// (path.Join concatenates).  The join with the sibling's directory lies where the name is known not to be
// absolute.
func c15absoluteNotJoined(c *an.Ctx) {
	p := c.P
	f := c.Fn("C15.sites", "(*Set).getSiblingTemplate")
	if f == nil || f.Sig == nil || f.Sig.Params().Len() < 2 {
		return
	}
	info := f.Info()
	nameParam, sibParam := f.Sig.Params().At(0), f.Sig.Params().At(1)
	// (a helper's parameter stands for what getSiblingTemplate binds it to)
	resolveObj := func(id *ast.Ident) types.Object {
		obj := an.ObjOf(info, id)
		for depth := 0; depth < 3; depth++ {
			v, ok := obj.(*types.Var)
			if !ok {
				break
			}
			binds := p.HelperBinds(f)[v]
			if len(binds) != 1 {
				break
			}
			bid, ok := an.Unparen(binds[0].Arg).(*ast.Ident)
			if !ok {
				break
			}
			obj = an.ObjOf(info, bid)
		}
		return obj
	}
	mentions := func(e ast.Expr, v *types.Var, depth int) bool {
		found := false
		var walk func(e ast.Expr, depth int)
		walk = func(e ast.Expr, depth int) {
			ast.Inspect(e, func(n ast.Node) bool {
				if id, ok := n.(*ast.Ident); ok {
					obj := resolveObj(id)
					if obj == types.Object(v) {
						found = true
					} else if lv, ok := obj.(*types.Var); ok && depth < 3 && !lv.IsField() && lv.Parent() != lv.Pkg().Scope() {
						for _, d := range an.LocalDefs(f, lv) {
							if d != nil {
								walk(d, depth+1)
							}
						}
					}
				}
				return !found
			})
		}
		walk(e, depth)
		return found
	}
	var absTests []ast.Expr
	an.InspectOwn(f, func(n ast.Node) bool {
		if call, ok := n.(*ast.CallExpr); ok {
			switch an.CalleeName(info, call) {
			case "path.IsAbs", "filepath.IsAbs":
				if len(call.Args) == 1 {
					if id, ok := an.Unparen(call.Args[0]).(*ast.Ident); ok && resolveObj(id) == types.Object(nameParam) {
						absTests = append(absTests, call)
					}
				}
			case "strings.HasPrefix":
				if len(call.Args) == 2 {
					if id, ok := an.Unparen(call.Args[0]).(*ast.Ident); ok && resolveObj(id) == types.Object(nameParam) {
						if tv, ok := info.Types[call.Args[1]]; ok && tv.Value != nil && tv.Value.ExactString() == `"/"` {
							absTests = append(absTests, call)
						}
					}
				}
			}
		}
		return true
	})
	bad := token.NoPos
	nJoin := 0
	x := p.NewExplorer(f, an.Hooks{Call: func(x *an.Explorer, call *ast.CallExpr, st *an.State) {
		if name := an.CalleeName(info, call); name != "path.Join" && name != "filepath.Join" {
			return
		}
		withSib, withName := false, false
		for _, a := range call.Args {
			if mentions(a, sibParam, 0) {
				withSib = true
			}
			if mentions(a, nameParam, 0) {
				withName = true
			}
		}
		if !withSib || !withName {
			return
		}
		nJoin++
		relative := false
		for _, t := range absTests {
			if v, known := x.Truth(t, st); known && !v {
				relative = true
			}
		}
		if !relative && !bad.IsValid() {
			bad = call.Pos()
		}
	}})
	x.Run(nil)
	c.States += x.Visited
	if nJoin == 0 {
		c.Anchor("C15.sites", "join of a relative name with the referring template's directory in getSiblingTemplate")
		return
	}
	c.Check(!bad.IsValid() && x.Undecided == "", "C15.sites", "(*Set).getSiblingTemplate/absolute-not-joined", f.Pos(), "only a name known not to be absolute is joined to the referring template's directory",
		"getSiblingTemplate joins the name to the directory of the referring template without knowing that it is relative: path.Join concatenates, so {{extends \"/layouts/base.jet\"}} in /pages/deep/home.jet asks for /pages/deep/layouts/base.jet")
}

// devModeOnlyLookup (C16.probe / C17.steps, continued): development mode is a cache policy — "every lookup
// re-reads the loader".  Nothing that evaluates a template looks at it: the same template with the same data
// renders the same bytes, and isset() and the two-value lookup answer the same, whatever the mode.
func devModeOnlyLookup(c *an.Ctx, rule string) {
	p := c.P
	eval := p.Eval()
	lookups := p.Reach(p.Fn("(*Set).GetTemplate"), p.Fn("(*Set).Parse"))
	n := 0
	for _, f := range p.Units() {
		if f.Pkg != p.Jet || f.Body == nil {
			continue
		}
		info := f.Info()
		k := 0
		an.InspectOwn(f, func(nd ast.Node) bool {
			sel, ok := nd.(*ast.SelectorExpr)
			if !ok || p.FieldKey(info, sel) != "Set.developmentMode" {
				return true
			}
			n++
			k++
			key := f.Name + "/development-mode"
			if k > 1 {
				key += "#" + itoa(k)
			}
			inEvalOnly := (eval[f] || eval[f.Root()]) && !lookups[f] && !lookups[f.Root()]
			c.Check(!inEvalOnly, rule, key, sel.Pos(), "development mode is consulted by the template lookup only",
				f.Name+" lets the evaluation of a template depend on development mode: the mode is a cache policy, and what a template renders — and what isset() and `v, ok := m[k]` answer — must not change with it")
			return true
		})
	}
	c.Expect(rule, "reads of Set.developmentMode", n, 2)
}

// c02deferReceiver (C02.drain receiver-bound): the receiver of a deferred method call is evaluated when the defer
// statement runs.  `defer t.recover(&err)` registered before `t = &Template{…}` hands the handler a nil template: the
// error still comes back, but the handler cannot reach the lexer it is supposed to drain and the lexer goroutine stays
// blocked for ever.  So wherever a method is deferred on a local pointer variable (a named result, a `var`), that
// variable has been assigned on every path to the defer statement.
func c02deferReceiver(c *an.Ctx) {
	p := c.P
	n := 0
	for _, f := range p.Units() {
		if f.Pkg != p.Jet || f.Body == nil {
			continue
		}
		info := f.Info()
		var sites []*ast.DeferStmt
		an.InspectOwn(f, func(nd ast.Node) bool {
			d, ok := nd.(*ast.DeferStmt)
			if !ok {
				return true
			}
			sel, ok := an.Unparen(d.Call.Fun).(*ast.SelectorExpr)
			if !ok {
				return true
			}
			id, ok := an.Unparen(sel.X).(*ast.Ident)
			if !ok {
				return true
			}
			v, ok := an.ObjOf(info, id).(*types.Var)
			if !ok || v.IsField() || v.Pkg() == nil || v.Parent() == v.Pkg().Scope() {
				return true
			}
			if _, isPtr := v.Type().Underlying().(*types.Pointer); !isPtr {
				return true
			}
			if _, isParam := an.IsParam(f, v); isParam {
				return true
			}
			if s := info.Selections[sel]; s == nil || s.Kind() != types.MethodVal {
				return true
			}
			sites = append(sites, d)
			return true
		})
		if len(sites) == 0 {
			continue
		}
		c.FnsAnalysed[f.Name] = true
		bad := map[*ast.DeferStmt]bool{}
		seen := map[*ast.DeferStmt]bool{}
		x := p.NewExplorer(f, an.Hooks{
			PreAssign: func(x *an.Explorer, lhs, rhs ast.Expr, stmt ast.Node, st *an.State) {
				if id, ok := an.Unparen(lhs).(*ast.Ident); ok && rhs != nil {
					if k, ok := x.Key(id); ok {
						if an.Str(an.Unparen(rhs)) == "nil" {
							st.Set("asg:"+k, "")
						} else {
							st.Set("asg:"+k, "1")
						}
					}
				}
			},
			Defer: func(x *an.Explorer, d *ast.DeferStmt, st *an.State) {
				for _, s := range sites {
					if s != d {
						continue
					}
					seen[d] = true
					recv := an.Unparen(d.Call.Fun).(*ast.SelectorExpr).X
					if k, ok := x.Key(recv); !ok || st.Get("asg:"+k) == "" {
						bad[d] = true
					}
				}
			},
		})
		x.Run(nil)
		c.States += x.Visited
		for i, d := range sites {
			n++
			key := f.Name + "/deferred-receiver"
			if i > 0 {
				key += "#" + itoa(i+1)
			}
			switch {
			case x.Undecided != "":
				c.Undecided("C02.drain", key, d.Pos(), "%s", x.Undecided)
			case bad[d] || !seen[d]:
				c.Bad("C02.drain", key, d.Pos(), nil, "%s defers %s on a path where %s has not been assigned yet: the receiver is evaluated at the defer statement, the method runs on a nil receiver and cannot release what the function acquires afterwards (the lexer goroutine of a failed parse is never drained)",
					f.Name, an.Str(d.Call.Fun), an.Str(an.Unparen(d.Call.Fun).(*ast.SelectorExpr).X))
			default:
				c.OK("C02.drain", key, d.Pos(), "the receiver of the deferred method call is assigned before the defer statement on every path")
			}
		}
	}
	c.Expect("C02.drain", "methods deferred on a local pointer variable", n, 1)
}

// c04resultComputed (C04.kinds result-computed): a binary arithmetic evaluator answers with the value of a Go
// arithmetic (or concatenation) expression over its two operands.  A path that has evaluated both operands and
// returns one of them as it came — a shortcut for "adding to an empty string", "multiplying by one" — changes the
// kind of the result (`"" + 1` is the text "1", not the number) and with it the typing of whatever the result is
// combined with next.
func c04resultComputed(c *an.Ctx) {
	p := c.P
	n := 0
	for _, name := range []string{"(*Runtime).evalAdditiveExpression", "(*Runtime).evalMultiplicativeExpression"} {
		f := c.Fn("C04.kinds", name)
		if f == nil {
			continue
		}
		info := f.Info()
		computed := func(e ast.Expr) bool {
			call, ok := an.Unparen(e).(*ast.CallExpr)
			if !ok || an.CalleeName(info, call) != "reflect.ValueOf" || len(call.Args) != 1 {
				return false
			}
			b, ok := an.Unparen(call.Args[0]).(*ast.BinaryExpr)
			if !ok {
				return false
			}
			switch b.Op {
			case token.ADD, token.SUB, token.MUL, token.QUO, token.REM:
				return true
			}
			return false
		}
		bad := token.NoPos
		var badFacts []string
		what := ""
		nRet := 0
		var opSwitches []*ast.SwitchStmt
		an.InspectOwn(f, func(nd ast.Node) bool {
			if sw, ok := nd.(*ast.SwitchStmt); ok && sw.Tag != nil && p.FieldKey(info, sw.Tag) == "item.typ" {
				hasDefault := false
				for _, cl := range sw.Body.List {
					if cl.(*ast.CaseClause).List == nil {
						hasDefault = true
					}
				}
				if !hasDefault {
					opSwitches = append(opSwitches, sw)
				}
			}
			return true
		})
		x := p.NewExplorer(f, an.Hooks{
			Call: func(x *an.Explorer, call *ast.CallExpr, st *an.State) {
				if an.CalleeName(info, call) == "(*jet.Runtime).evalPrimaryExpressionGroup" {
					st.Add("ops", 1)
				}
			},
			PreAssign: func(x *an.Explorer, lhs, rhs ast.Expr, stmt ast.Node, st *an.State) {
				if id, ok := an.Unparen(lhs).(*ast.Ident); ok && rhs != nil {
					if k, ok := x.Key(id); ok {
						if computed(rhs) {
							st.Set("comp:"+k, "1")
						} else {
							st.Set("comp:"+k, "")
						}
					}
				}
			},
			Return: func(x *an.Explorer, ret *ast.ReturnStmt, st *an.State) {
				if st.Int("ops") < 2 || len(ret.Results) != 1 {
					return
				}
				// a path that took no arm of a default-less switch over the node's operator does not exist: the parser
				// builds the node only for the operators of its level (C04.ladder)
				for _, sw := range opSwitches {
					none := true
					for _, cl := range sw.Body.List {
						for _, v := range cl.(*ast.CaseClause).List {
							if t, known := x.Truth(&ast.BinaryExpr{X: sw.Tag, Op: token.EQL, Y: v}, st); !known || t {
								none = false
							}
						}
					}
					if none {
						return
					}
				}
				nRet++
				r := ret.Results[0]
				if computed(r) {
					return
				}
				if k, ok := x.Key(r); ok && st.Get("comp:"+k) != "" {
					return
				}
				if !bad.IsValid() {
					bad, badFacts, what = ret.Pos(), an.Facts(st), an.Str(r)
				}
			},
		})
		x.Run(nil)
		c.States += x.Visited
		n++
		key := name + "/result-computed"
		switch {
		case x.Undecided != "":
			c.Undecided("C04.kinds", key, f.Pos(), "%s", x.Undecided)
		case bad.IsValid():
			c.Bad("C04.kinds", key, bad, badFacts, "%s returns %s on a path that has evaluated both operands but computed nothing from them: the result is an operand as it came, not the value (and kind) of the operation", name, what)
		case nRet == 0:
			c.Bad("C04.kinds", key, f.Pos(), nil, "%s has no return after evaluating both operands", name)
		default:
			c.OK("C04.kinds", key, f.Pos(), "every return after both operands were evaluated hands back the value of a Go arithmetic expression")
		}
	}
	c.Expect("C04.kinds", "binary arithmetic evaluators", n, 2)
}

// c14countChecked (C14.count): evaluateArgs hands back argument values (a nil error) only on paths on which the number
// of arguments given was compared with the number the function takes — `given != required` or `given < required` is
// known to be false there.  A shortcut in front of the comparison ("a niladic function needs no arguments evaluated")
// lets a call with the wrong number of arguments through: the arguments are dropped without an error.
func c14countChecked(c *an.Ctx) {
	p := c.P
	f := c.Fn("C14.count", "(*Runtime).evaluateArgs")
	if f == nil {
		return
	}
	info := f.Info()
	// given: a local counted from len(<CallArgs>.Exprs); required: a local taken from (reflect.Type).NumIn()
	var given, required *ast.Ident
	an.InspectOwn(f, func(n ast.Node) bool {
		an.Assigns(n, func(lhs, rhs ast.Expr, _ token.Token) {
			id, ok := an.Unparen(lhs).(*ast.Ident)
			if !ok || rhs == nil {
				return
			}
			call := callOf(rhs)
			if call == nil {
				return
			}
			switch an.CalleeName(info, call) {
			case "builtin.len":
				if len(call.Args) == 1 && p.FieldKey(info, call.Args[0]) == "CallArgs.Exprs" && given == nil {
					given = id
				}
			case "(reflect.Type).NumIn":
				if required == nil {
					required = id
				}
			}
		})
		return true
	})
	if given == nil || required == nil {
		c.Anchor("C14.count", "locals holding the number of arguments given and required in evaluateArgs")
		return
	}
	bad := token.NoPos
	var badFacts []string
	nOK := 0
	x := p.NewExplorer(f, an.Hooks{Return: func(x *an.Explorer, ret *ast.ReturnStmt, st *an.State) {
		if len(ret.Results) != 2 {
			return
		}
		if tv, ok := info.Types[ret.Results[1]]; !ok || !tv.IsNil() {
			return
		}
		if t, known := x.Truth(&ast.BinaryExpr{X: given, Op: token.NEQ, Y: required}, st); known && !t {
			nOK++
			return
		}
		if t, known := x.Truth(&ast.BinaryExpr{X: given, Op: token.LSS, Y: required}, st); known && !t {
			nOK++
			return
		}
		if !bad.IsValid() {
			bad, badFacts = ret.Pos(), an.Facts(st)
		}
	}})
	x.Run(nil)
	c.States += x.Visited
	key := "(*Runtime).evaluateArgs/count-checked"
	switch {
	case x.Undecided != "":
		c.Undecided("C14.count", key, f.Pos(), "%s", x.Undecided)
	case bad.IsValid():
		c.Bad("C14.count", key, bad, badFacts, "evaluateArgs returns argument values without an error on a path where the number of arguments given (%s) was not compared with the number required (%s): a call with too many or too few arguments goes through, its arguments dropped", given.Name, required.Name)
	case nOK == 0:
		c.Bad("C14.count", key, f.Pos(), nil, "evaluateArgs has no successful return")
	default:
		c.OK("C14.count", key, f.Pos(), "every successful return lies behind the comparison of the arguments given with the arguments required")
	}
}

// parseIntoPerArgument (C18.args / C14.forms per-argument): ParseInto treats every argument position on its own.
// A variable that the argument loop assigns and reads but that is declared outside the loop carries what one
// argument did into the handling of the next (a "stored" flag that is never reset makes every later argument skip
// the conversions that come after the test) — unless each iteration gives it a fresh value, unconditionally,
// before anything reads it.
func parseIntoPerArgument(c *an.Ctx, rule string) {
	_ = c.P
	f := c.Fn(rule, "(*Arguments).ParseInto")
	if f == nil {
		return
	}
	info := f.Info()
	nLoops := 0
	an.InspectOwn(f, func(n ast.Node) bool {
		var body *ast.BlockStmt
		switch l := n.(type) {
		case *ast.ForStmt:
			body = l.Body
		case *ast.RangeStmt:
			body = l.Body
		default:
			return true
		}
		// the argument loop: its body fetches an argument
		fetches := false
		ast.Inspect(body, func(m ast.Node) bool {
			if call, ok := m.(*ast.CallExpr); ok && an.CalleeName(info, call) == "(*jet.Arguments).Get" {
				fetches = true
			}
			return !fetches
		})
		if !fetches {
			return true
		}
		nLoops++
		inBody := func(pos token.Pos) bool { return pos >= body.Pos() && pos < body.End() }
		assigned := map[types.Object]bool{}
		ast.Inspect(body, func(m ast.Node) bool {
			an.Assigns(m, func(lhs, _ ast.Expr, _ token.Token) {
				if id, ok := an.Unparen(lhs).(*ast.Ident); ok {
					if o := an.ObjOf(info, id); o != nil && !inBody(o.Pos()) {
						if _, isVar := o.(*types.Var); isVar {
							assigned[o] = true
						}
					}
				}
			})
			return true
		})
		var objs []types.Object
		for o := range assigned {
			objs = append(objs, o)
		}
		sort.Slice(objs, func(i, j int) bool { return objs[i].Pos() < objs[j].Pos() })
		key := "(*Arguments).ParseInto/per-argument"
		bad := false
		for _, o := range objs {
			mentions := func(nd ast.Node) bool {
				found := false
				ast.Inspect(nd, func(m ast.Node) bool {
					if id, ok := m.(*ast.Ident); ok && an.ObjOf(info, id) == o {
						found = true
					}
					return !found
				})
				return found
			}
			// the first top-level statement of the body that mentions it gives it a value that does not depend on it
			fresh := false
			for _, s := range body.List {
				if !mentions(s) {
					continue
				}
				if as, ok := s.(*ast.AssignStmt); ok {
					onLeft := false
					for _, l := range as.Lhs {
						if id, ok := an.Unparen(l).(*ast.Ident); ok && an.ObjOf(info, id) == o {
							onLeft = true
						}
					}
					onRight := false
					for _, r := range as.Rhs {
						if mentions(r) {
							onRight = true
						}
					}
					fresh = onLeft && !onRight && as.Tok == token.ASSIGN
				}
				break
			}
			if !fresh && !bad {
				bad = true
				c.Bad(rule, key, o.Pos(), nil, "ParseInto's argument loop assigns and reads %q, which is declared outside the loop and not given a fresh value at the start of each iteration: what one argument did decides how the next is handled (later arguments are silently skipped or mis-parsed)", o.Name())
			}
		}
		if !bad {
			c.OK(rule, key, n.Pos(), "no state is carried from one argument position to the next")
		}
		return true
	})
	c.Expect(rule, "argument loops in ParseInto", nLoops, 1)
}

// c12shadow (C12.shadow): two signatures of an error lost to `:=` shadowing.  (a) An error variable that is declared
// without a value (a named result, `var err error`), read — tested, returned, or handed back by a bare return — and
// never assigned nor had its address taken anywhere in the function: the test is dead and the function reports
// success whatever happened (the assignment meant for it went to an inner variable of the same name).  (b) An
// assignment to an error variable that shadows an outer error variable of the same name and is not read again
// before its scope ends: the value was meant for the outer variable and is lost.
func c12shadow(c *an.Ctx) {
	p := c.P
	nVars := 0
	for _, f := range p.Units() {
		if !p.IsModulePkg(f.Pkg.Types) || f.Body == nil {
			continue
		}
		info := f.Info()
		isErr := func(t types.Type) bool { return t != nil && t.String() == "error" }
		// candidates of (a)
		cands := map[*types.Var]token.Pos{}
		if f.Sig != nil {
			for i := 0; i < f.Sig.Results().Len(); i++ {
				if r := f.Sig.Results().At(i); r.Name() != "" && r.Name() != "_" && isErr(r.Type()) {
					cands[r] = r.Pos()
				}
			}
		}
		an.InspectBody(f, func(n ast.Node) bool {
			if ds, ok := n.(*ast.DeclStmt); ok {
				if gd, ok := ds.Decl.(*ast.GenDecl); ok && gd.Tok == token.VAR {
					for _, sp := range gd.Specs {
						vs := sp.(*ast.ValueSpec)
						if len(vs.Values) != 0 {
							continue
						}
						for _, name := range vs.Names {
							if v, ok := info.Defs[name].(*types.Var); ok && isErr(v.Type()) {
								cands[v] = name.Pos()
							}
						}
					}
				}
			}
			return true
		})
		written := map[types.Object]bool{}
		read := map[types.Object]token.Pos{}
		lhsIdent := map[*ast.Ident]bool{}
		bareReturn := token.NoPos
		ast.Inspect(f.Body, func(n ast.Node) bool {
			switch s := n.(type) {
			case *ast.AssignStmt:
				for _, l := range s.Lhs {
					if id, ok := an.Unparen(l).(*ast.Ident); ok {
						lhsIdent[id] = true
						if o := an.ObjOf(info, id); o != nil {
							written[o] = true
						}
					}
				}
			case *ast.RangeStmt:
				for _, l := range []ast.Expr{s.Key, s.Value} {
					if id, ok := l.(*ast.Ident); ok && l != nil {
						lhsIdent[id] = true
						if o := an.ObjOf(info, id); o != nil {
							written[o] = true
						}
					}
				}
			case *ast.UnaryExpr:
				if s.Op == token.AND {
					if id, ok := an.Unparen(s.X).(*ast.Ident); ok {
						if o := an.ObjOf(info, id); o != nil {
							written[o] = true
						}
					}
				}
			case *ast.ReturnStmt:
				if len(s.Results) == 0 && !bareReturn.IsValid() {
					if lit := p.OwnerFn(s.Pos()); lit == f || lit == nil {
						bareReturn = s.Pos()
					}
				}
			}
			return true
		})
		ast.Inspect(f.Body, func(n ast.Node) bool {
			if id, ok := n.(*ast.Ident); ok && !lhsIdent[id] {
				if o := info.Uses[id]; o != nil {
					if _, seen := read[o]; !seen {
						read[o] = id.Pos()
					}
				}
			}
			return true
		})
		var vs []*types.Var
		for v := range cands {
			vs = append(vs, v)
		}
		sort.Slice(vs, func(i, j int) bool { return vs[i].Pos() < vs[j].Pos() })
		for _, v := range vs {
			nVars++
			if written[v] {
				continue
			}
			at, isRead := read[v]
			if !isRead && bareReturn.IsValid() && f.Sig != nil {
				for i := 0; i < f.Sig.Results().Len(); i++ {
					if f.Sig.Results().At(i) == v {
						at, isRead = bareReturn, true
					}
				}
			}
			if isRead {
				c.Bad("C12.shadow", f.Name+"/never-assigned:"+v.Name(), at, nil, "%s reads its error variable %q (declared without a value) but nothing in the function assigns it: the test is dead and a failure below goes unreported — the assignment meant for it went to a variable of the same name declared by := in an inner scope", f.Name, v.Name())
			}
		}
		// (b) dead store to a shadowing error variable
		ast.Inspect(f.Body, func(n ast.Node) bool {
			as, ok := n.(*ast.AssignStmt)
			if !ok || as.Tok != token.ASSIGN {
				return true
			}
			for _, l := range as.Lhs {
				id, ok := an.Unparen(l).(*ast.Ident)
				if !ok {
					continue
				}
				v, ok := an.ObjOf(info, id).(*types.Var)
				if !ok || !isErr(v.Type()) || v.Parent() == nil {
					continue
				}
				// shadows an outer error variable of the same function?
				outer := v.Parent().Parent()
				var shadowed *types.Var
				for sc := outer; sc != nil && sc != f.Pkg.Types.Scope(); sc = sc.Parent() {
					if o, ok := sc.Lookup(v.Name()).(*types.Var); ok && o != v && isErr(o.Type()) && o.Pos() < v.Pos() && o.Pos() >= f.Pos() {
						shadowed = o
						break
					}
				}
				if shadowed == nil {
					continue
				}
				usedLater := false
				ast.Inspect(f.Body, func(m ast.Node) bool {
					if uid, ok := m.(*ast.Ident); ok && uid.Pos() >= as.End() && uid.Pos() < v.Parent().End() && info.Uses[uid] == types.Object(v) && !lhsIdent[uid] {
						usedLater = true
					}
					return !usedLater
				})
				if !usedLater {
					c.Bad("C12.shadow", f.Name+"/lost-assignment:"+v.Name(), as.Pos(), nil, "%s assigns %q, a variable declared by := in an inner scope that shadows the function's error variable of the same name, and does not read it again before that scope ends: the error was meant for the outer variable and is lost", f.Name, v.Name())
				}
			}
			return true
		})
	}
	c.Expect("C12.shadow", "error variables declared without a value (named results, var)", nVars, 5)
	c.OK("C12.shadow", "summary", p.Jet.Syntax[0].Pos(), "%d error variables declared without a value are all assigned somewhere; no assignment to a shadowing error variable is lost", nVars)
}

// c20attachedOnce (C20.walk attached-once): the tree the parser builds is a tree.  A node held in a local variable
// that has been handed to a node constructor as a child is not handed to a constructor again unless the variable was
// given a new value in between — a variable that outlives one pass of a parsing loop (declared in front of the loop,
// assigned only on some paths of a pass) otherwise hangs the node of an earlier pass below a second parent, and the
// visitor reaches it twice.
func c20attachedOnce(c *an.Ctx) {
	p := c.P
	nodeIface := p.Iface("", "Node")
	if nodeIface == nil {
		c.Anchor("C20.walk", "interface jet.Node")
		return
	}
	isNodeTyped := func(t types.Type) bool {
		if t == nil {
			return false
		}
		if _, isIface := t.Underlying().(*types.Interface); isIface {
			return types.Implements(t, nodeIface)
		}
		return types.Implements(t, nodeIface) || types.Implements(types.NewPointer(t), nodeIface)
	}
	nFns, nCalls := 0, 0
	for _, f := range an.SortedFns(p.Parse()) {
		if f.Pkg != p.Jet || f.Body == nil || f.Decl == nil {
			continue
		}
		info := f.Info()
		hasCtor := false
		an.InspectOwn(f, func(n ast.Node) bool {
			if call, ok := n.(*ast.CallExpr); ok && strings.HasPrefix(an.CalleeName(info, call), "(*jet.Template).new") {
				hasCtor = true
			}
			return !hasCtor
		})
		if !hasCtor {
			continue
		}
		nFns++
		c.FnsAnalysed[f.Name] = true
		bad := token.NoPos
		var badFacts []string
		what := ""
		x := p.NewExplorer(f, an.Hooks{
			PreAssign: func(x *an.Explorer, lhs, rhs ast.Expr, stmt ast.Node, st *an.State) {
				if id, ok := an.Unparen(lhs).(*ast.Ident); ok {
					if o := an.ObjOf(info, id); o != nil {
						st.Set("att:"+o.Name()+"@"+itoa(int(o.Pos())), "")
					}
				}
			},
			Call: func(x *an.Explorer, call *ast.CallExpr, st *an.State) {
				if !strings.HasPrefix(an.CalleeName(info, call), "(*jet.Template).new") {
					return
				}
				nCalls++
				for _, a := range call.Args {
					id, ok := an.Unparen(a).(*ast.Ident)
					if !ok {
						continue
					}
					v, isVar := an.ObjOf(info, id).(*types.Var)
					if !isVar || !isNodeTyped(v.Type()) {
						continue
					}
					k := v.Name() + "@" + itoa(int(v.Pos()))
					if prev := st.Get("att:" + k); prev != "" && !bad.IsValid() {
						bad, badFacts, what = call.Pos(), an.Facts(st), id.Name+" (already a child of the node built at "+prev+")"
					}
					st.Set("att:"+k, p.RelPos(call.Pos()))
				}
			},
		})
		x.Run(nil)
		c.States += x.Visited
		key := f.Name + "/attached-once"
		switch {
		case x.Undecided != "":
			c.Undecided("C20.walk", key, f.Pos(), "%s", x.Undecided)
		case bad.IsValid():
			c.Bad("C20.walk", key, bad, badFacts, "%s hands %s to a node constructor again without having given the variable a new value: one node hangs below two parents (the tree is no longer a tree, Walk shows the node to the visitor twice)", f.Name, what)
		default:
			c.OK("C20.walk", key, f.Pos(), "no local node is handed to two node constructors without being reassigned in between")
		}
	}
	c.Expect("C20.walk", "parser functions that build nodes from local nodes", nFns, 10)
	_ = nCalls
}

// c12fieldInterface (C12.panicval taken-out): reflect refuses to hand out a value obtained from an unexported struct
// field (Interface() panics with a string, which Execute re-panics).  A function that is handed the fields of a struct
// one by one — an argument of one of its calls is `<value>.Field(i)`, all fields, exported or not — calls Interface() on
// such a parameter only where CanInterface() is known to be true for it.
func c12fieldInterface(c *an.Ctx) {
	p := c.P
	eval := p.Eval()
	tainted := map[*types.Var]token.Pos{}
	for _, f := range p.Units() {
		if f.Pkg != p.Jet || f.Body == nil {
			continue
		}
		info := f.Info()
		an.InspectOwn(f, func(n ast.Node) bool {
			call, ok := n.(*ast.CallExpr)
			if !ok {
				return true
			}
			g := p.FnByObj[an.Callee(info, call)]
			if g == nil || g.Sig == nil || g.Sig.Variadic() || g.Sig.Params().Len() != len(call.Args) {
				return true
			}
			for i, a := range call.Args {
				if fc := callOf(a); fc != nil && an.CalleeName(info, fc) == "(reflect.Value).Field" {
					tainted[g.Sig.Params().At(i)] = fc.Pos()
				}
			}
			return true
		})
	}
	n := 0
	for _, g := range an.SortedFns(eval) {
		if g.Pkg != p.Jet || g.Body == nil || g.Sig == nil {
			continue
		}
		ginfo := g.Info()
		var sites []ast.Node
		var canCalls []*ast.CallExpr
		an.InspectOwn(g, func(nd ast.Node) bool {
			call, ok := nd.(*ast.CallExpr)
			if !ok {
				return true
			}
			switch an.CalleeName(ginfo, call) {
			case "(reflect.Value).Interface":
				if id, ok := an.Unparen(an.Receiver(call)).(*ast.Ident); ok {
					if v, ok := an.ObjOf(ginfo, id).(*types.Var); ok {
						if _, isTainted := tainted[v]; isTainted {
							sites = append(sites, call)
						}
					}
				}
			case "(reflect.Value).CanInterface":
				canCalls = append(canCalls, call)
			}
			return true
		})
		if len(sites) == 0 {
			continue
		}
		c.FnsAnalysed[g.Name] = true
		pr := p.ProbeFn(g, sites, an.Hooks{})
		c.States += pr.X.Visited
		for i, s := range sites {
			n++
			call := s.(*ast.CallExpr)
			key := g.Name + "/Interface-of-field"
			if i > 0 {
				key += "#" + itoa(i+1)
			}
			rk, _ := pr.X.Key(an.Receiver(call))
			ok := len(pr.At[s]) > 0
			var facts []string
			for _, st := range pr.At[s] {
				guarded := false
				for _, cc := range canCalls {
					if k, has := pr.X.Key(an.Receiver(cc)); has && k == rk {
						if t, known := pr.X.Truth(cc, st); known && t {
							guarded = true
						}
					}
				}
				if !guarded {
					ok = false
					facts = an.Facts(st)
				}
			}
			if ok {
				c.OK("C12.panicval", key, call.Pos(), "Interface() is called on a value that may be an unexported struct field only where CanInterface() holds")
			} else {
				c.Bad("C12.panicval", key, call.Pos(), facts, "%s calls %s on a parameter that receives struct fields one by one (exported or not) without CanInterface() being known to hold: for an unexported field reflect panics with a string, which Execute re-panics", g.Name, an.Str(call))
			}
		}
	}
	c.Expect("C12.panicval", "Interface() calls on values that may be unexported struct fields", n, 1)
}

// c18contentAgrees (C18.once content-inherited): Runtime.YieldBlock(name, ctx) renders the block like
// `{{yield name() ctx}}` — a yield without a content part.  On the paths of executeYieldBlock on which no content was
// given (its content parameter is nil), Runtime.content is therefore left as YieldBlock leaves it: the only stores are
// of the value saved from it on entry (the restore at the end), or stores YieldBlock makes as well.  A change of what a
// content-less yield inherits made on one side only makes the API and the syntax render `{{yield content}}` differently.
func c18contentAgrees(c *an.Ctx) {
	p := c.P
	f := c.Fn("C18.once", "(*Runtime).executeYieldBlock")
	yb := c.Fn("C18.once", "(*Runtime).YieldBlock")
	if f == nil || yb == nil {
		return
	}
	info := f.Info()
	var contentParam *types.Var
	for i := 0; i < f.Sig.Params().Len(); i++ {
		if an.TypeName(f.Sig.Params().At(i).Type()) == "*jet.ListNode" {
			contentParam = f.Sig.Params().At(i)
		}
	}
	if contentParam == nil {
		c.Anchor("C18.once", "content list parameter of executeYieldBlock")
		return
	}
	// what YieldBlock itself stores into Runtime.content
	apiStores := map[string]bool{}
	an.InspectOwn(yb, func(n ast.Node) bool {
		an.Assigns(n, func(lhs, rhs ast.Expr, _ token.Token) {
			if p.FieldKey(yb.Info(), lhs) == "Runtime.content" && rhs != nil {
				apiStores[an.Str(an.Unparen(rhs))] = true
			}
		})
		return true
	})
	ids := identsOf(f, contentParam)
	bad := token.NoPos
	what := ""
	x := p.NewExplorer(f, an.Hooks{PreAssign: func(x *an.Explorer, lhs, rhs ast.Expr, stmt ast.Node, st *an.State) {
		if id, ok := an.Unparen(lhs).(*ast.Ident); ok && rhs != nil && p.FieldKey(info, rhs) == "Runtime.content" {
			if k, ok := x.Key(id); ok {
				st.Set("entry:"+k, "1")
			}
			return
		}
		if p.FieldKey(info, lhs) != "Runtime.content" || rhs == nil || len(ids) == 0 {
			return
		}
		if t, known := x.Truth(&ast.BinaryExpr{X: ids[0], Op: token.EQL, Y: ast.NewIdent("nil")}, st); !known || !t {
			return // content was given (or may have been): the closure is installed
		}
		if k, ok := x.Key(rhs); ok && st.Get("entry:"+k) != "" {
			return // the restore of what was there on entry
		}
		if apiStores[an.Str(an.Unparen(rhs))] {
			return
		}
		if !bad.IsValid() {
			bad, what = lhs.Pos(), an.Str(rhs)
		}
	}})
	x.Run(nil)
	c.States += x.Visited
	key := "(*Runtime).executeYieldBlock/content-inherited"
	switch {
	case x.Undecided != "":
		c.Undecided("C18.once", key, f.Pos(), "%s", x.Undecided)
	case bad.IsValid():
		c.Bad("C18.once", key, bad, nil, "executeYieldBlock stores %s into Runtime.content on a path where the yield has no content part, and Runtime.YieldBlock does not: `{{yield name()}}` and YieldBlock(name, …) no longer render `{{yield content}}` inside the block alike", what)
	default:
		c.OK("C18.once", key, f.Pos(), "a yield without content leaves Runtime.content as Runtime.YieldBlock leaves it")
	}
}

// c12hashableKey (C12.panicval hashable-key): looking a value up in a map hashes it, and hashing a value whose dynamic
// type is not comparable (a slice, a map, a function behind an interface{} key type) is a runtime panic that Execute
// re-panics.  Every (reflect.Value).MapIndex / SetMapIndex of the evaluator is therefore handed a key that comes out
// of the map itself (MapKeys, MapRange), was converted to a string-kinded type, or is known to be of a comparable type
// (Type().Comparable() tested on that variable before; a later Convert of the same variable keeps what was found).
func c12hashableKey(c *an.Ctx) {
	p := c.P
	eval := p.Eval()
	n := 0
	for _, f := range p.Units() {
		if f.Pkg != p.Jet || f.Body == nil || (!eval[f] && !eval[f.Root()]) {
			continue
		}
		info := f.Info()
		calls := p.CallsIn(f, "(reflect.Value).MapIndex", "(reflect.Value).SetMapIndex")
		if len(calls) == 0 {
			continue
		}
		var compCalls []*ast.CallExpr
		an.InspectOwn(f, func(nd ast.Node) bool {
			if call, ok := nd.(*ast.CallExpr); ok && an.CalleeName(info, call) == "(reflect.Type).Comparable" {
				compCalls = append(compCalls, call)
			}
			return true
		})
		isSite := map[*ast.CallExpr]bool{}
		for _, cl := range calls {
			isSite[cl] = true
		}
		bad := map[*ast.CallExpr]bool{}
		seen := map[*ast.CallExpr]bool{}
		// fromMap: the key is an element of the map's own key set
		fromMap := func(e ast.Expr) bool {
			for _, o := range valueOrigins(f, e, 0) {
				ok := false
				ast.Inspect(o, func(m ast.Node) bool {
					if call, isCall := m.(*ast.CallExpr); isCall {
						switch an.CalleeName(info, call) {
						case "(reflect.Value).MapKeys", "(*reflect.MapIter).Key", "(reflect.Value).MapRange":
							ok = true
						}
					}
					return true
				})
				if id, isId := an.Unparen(o).(*ast.Ident); isId {
					// a range variable over MapKeys()
					an.InspectOwn(f, func(m ast.Node) bool {
						if rs, isRange := m.(*ast.RangeStmt); isRange {
							if vid, isV := rs.Value.(*ast.Ident); isV && rs.Value != nil && an.ObjOf(info, vid) == an.ObjOf(info, id) {
								if call := callOf(rs.X); call != nil && an.CalleeName(info, call) == "(reflect.Value).MapKeys" {
									ok = true
								}
							}
						}
						return true
					})
				}
				if !ok {
					return false
				}
			}
			return true
		}
		x := p.NewExplorer(f, an.Hooks{
			Branch: func(x *an.Explorer, cond ast.Expr, val bool, st *an.State) {
				for _, cc := range compCalls {
					// <v>.Type().Comparable()
					tc := callOf(an.Receiver(cc))
					if tc == nil || an.CalleeName(info, tc) != "(reflect.Value).Type" {
						continue
					}
					if k, ok := x.Key(an.Receiver(tc)); ok {
						if t, known := x.Truth(cc, st); known && t {
							st.Set("hashable:"+k, "1")
						}
					}
				}
			},
			PreAssign: func(x *an.Explorer, lhs, rhs ast.Expr, stmt ast.Node, st *an.State) {
				id, ok := an.Unparen(lhs).(*ast.Ident)
				if !ok || rhs == nil {
					return
				}
				k, ok := x.Key(id)
				if !ok {
					return
				}
				// v = v.Convert(t): what was found about v's comparability stays; a conversion to a string-kinded type
				// makes it hashable
				if call := callOf(rhs); call != nil && an.CalleeName(info, call) == "(reflect.Value).Convert" {
					if rk, ok := x.Key(an.Receiver(call)); ok && rk == k {
						if len(call.Args) == 1 && strings.Contains(strings.ToLower(an.Str(call.Args[0])), "string") {
							st.Set("hashable:"+k, "1")
						}
						return
					}
				}
				// reflect.ValueOf(s) / reflect.ValueOf(&s).Elem() of a value whose static type is a basic one (a name)
				if basicValueOf(info, rhs) {
					st.Set("hashable:"+k, "1")
					return
				}
				st.Set("hashable:"+k, "")
			},
			Call: func(x *an.Explorer, call *ast.CallExpr, st *an.State) {
				if !isSite[call] || len(call.Args) < 1 {
					return
				}
				seen[call] = true
				key := call.Args[0]
				if fromMap(key) {
					return
				}
				if k, ok := x.Key(key); ok && st.Get("hashable:"+k) != "" {
					return
				}
				bad[call] = true
			},
		})
		x.Run(nil)
		c.States += x.Visited
		c.FnsAnalysed[f.Name] = true
		for i, call := range calls {
			n++
			key := f.Name + "/hashable-key"
			if i > 0 {
				key += "#" + itoa(i+1)
			}
			switch {
			case x.Undecided != "":
				c.Undecided("C12.panicval", key, call.Pos(), "%s", x.Undecided)
			case bad[call]:
				c.Bad("C12.panicval", key, call.Pos(), nil, "%s hands %s to %s without it being known to be of a comparable type: for a map keyed by an interface type a slice, map or function value makes the hash panic (\"hash of unhashable type\"), which Execute re-panics", f.Name, an.Str(call.Args[0]), an.Str(call.Fun))
			default:
				c.OK("C12.panicval", key, call.Pos(), "the key comes out of the map itself, is a string, or is known to be of a comparable type")
			}
		}
	}
	c.Expect("C12.panicval", "map lookups and stores through reflection in the evaluator", n, 3)
}

// basicValueOf: e is reflect.ValueOf(x) or reflect.ValueOf(&x).Elem() with x of a basic (comparable) static type.
func basicValueOf(info *types.Info, e ast.Expr) bool {
	call := callOf(e)
	if call == nil {
		return false
	}
	if an.CalleeName(info, call) == "(reflect.Value).Elem" {
		call = callOf(an.Receiver(call))
		if call == nil {
			return false
		}
	}
	if an.CalleeName(info, call) != "reflect.ValueOf" || len(call.Args) != 1 {
		return false
	}
	arg := an.Unparen(call.Args[0])
	if u, ok := arg.(*ast.UnaryExpr); ok && u.Op == token.AND {
		arg = an.Unparen(u.X)
	}
	tv, ok := info.Types[arg]
	if !ok || tv.Type == nil {
		return false
	}
	_, isBasic := tv.Type.Underlying().(*types.Basic)
	return isBasic
}
