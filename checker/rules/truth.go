package rules

import (
	"go/ast"
	"go/token"

	"jetverif/an"
)

// truthRule decides that isTrue(v) is, on every path, the function `v is valid and not the zero value
// of its type`: for every return statement and every assignment of {IsValid, IsZero} that is consistent
// with the facts of the path, the returned expression must evaluate — from those two facts alone — to
// IsValid && !IsZero.  A return whose value depends on anything else (a kind test, a conversion, a
// length) is reported: it makes some value of some kind truthy or falsy against the definition the
// documentation gives ("anything but false, 0, the empty string and nil").  The rule is insensitive
// to how the function is written (one expression, early returns, switch) as long as only the two
// reflect predicates decide.
func truthRule(c *an.Ctx, rule string) {
	f := c.Fn(rule, "isTrue")
	if f == nil {
		return
	}
	p := c.P
	v := an.Param(f, 0)
	var valid, zero ast.Expr
	an.InspectOwn(f, func(n ast.Node) bool {
		call, ok := n.(*ast.CallExpr)
		if !ok {
			return true
		}
		recv := an.Receiver(call)
		if recv == nil {
			return true
		}
		if id, ok := an.Unparen(recv).(*ast.Ident); ok && v != nil && f.Info().Uses[id] == v {
			switch an.CalleeName(f.Info(), call) {
			case "(reflect.Value).IsValid":
				if valid == nil {
					valid = call
				}
			case "(reflect.Value).IsZero":
				if zero == nil {
					zero = call
				}
			}
		}
		return true
	})
	if valid == nil || zero == nil {
		c.Bad(rule, "isTrue", f.Pos(), nil, "isTrue does not consult both v.IsValid() and v.IsZero(): it cannot be `valid and not the zero value`")
		return
	}
	x := p.NewExplorer(f, an.Hooks{})
	x.Run(nil)
	if x.Undecided != "" {
		c.Undecided(rule, "isTrue", f.Pos(), "exploration cut short: %s", x.Undecided)
		return
	}
	type combo struct{ valid, zero, checkZero bool }
	combos := []combo{{false, false, false}, {true, true, true}, {true, false, true}}
	nret, bad := 0, false
	for _, ex := range x.Exits {
		if ex.Kind != an.ExitReturn || ex.Ret == nil || len(ex.Ret.Results) != 1 {
			if ex.Kind == an.ExitNoReturn {
				c.Bad(rule, "isTrue", f.Pos(), ex.Trail, "isTrue has a path that does not return (panics)")
				bad = true
			}
			continue
		}
		nret++
		for _, cb := range combos {
			st := ex.State.Clone()
			if !x.Assume(valid, cb.valid, st) {
				continue
			}
			if cb.checkZero && !x.Assume(zero, cb.zero, st) {
				continue
			}
			want := cb.valid && !cb.zero
			got, known := x.Truth(ex.Ret.Results[0], st)
			if !known {
				c.Bad(rule, "isTrue", ex.Ret.Pos(), an.Facts(ex.State), "isTrue returns `%s`, which is not determined by v.IsValid()/v.IsZero(): truthiness depends on something other than `valid and not the zero value`", an.Str(ex.Ret.Results[0]))
				bad = true
				break
			}
			if got != want {
				c.Bad(rule, "isTrue", ex.Ret.Pos(), an.Facts(st), "isTrue returns %v for a value with IsValid=%v IsZero=%v (want %v)", got, cb.valid, cb.zero, want)
				bad = true
				break
			}
		}
	}
	if nret == 0 && !bad {
		c.Bad(rule, "isTrue", f.Pos(), nil, "isTrue has no return path")
		return
	}
	if !bad {
		c.OK(rule, "isTrue", f.Pos(), "every return of isTrue equals v.IsValid() && !v.IsZero() under the path facts (%d return paths × 3 validity/zero cases)", nret)
	}
}

// branchLeaves calls leaf for every comparison/identifier/call operand of a branch condition whose truth follows
// from the condition having evaluated to val: both operands of a true &&, both of a false ||, the operand of !;
// for a false && (true ||) an operand's truth is reported when the other operand is known to be true (false).
func branchLeaves(x *an.Explorer, cond ast.Expr, val bool, st *an.State, leaf func(e ast.Expr, val bool)) {
	switch e := an.Unparen(cond).(type) {
	case *ast.UnaryExpr:
		if e.Op == token.NOT {
			branchLeaves(x, e.X, !val, st, leaf)
			return
		}
	case *ast.BinaryExpr:
		if e.Op == token.LAND || e.Op == token.LOR {
			decisive := e.Op == token.LAND // the value both operands must have for the whole to have it
			if val == decisive {
				branchLeaves(x, e.X, val, st, leaf)
				branchLeaves(x, e.Y, val, st, leaf)
				return
			}
			// one operand has the other value; which one is known only through the other
			if t, known := x.Truth(e.X, st); known && t == decisive {
				branchLeaves(x, e.X, t, st, leaf)
				branchLeaves(x, e.Y, val, st, leaf)
			} else if t, known := x.Truth(e.Y, st); known && t == decisive {
				branchLeaves(x, e.Y, t, st, leaf)
				branchLeaves(x, e.X, val, st, leaf)
			} else if known0, t0 := func() (bool, bool) { t, k := x.Truth(e.X, st); return k, t }(); known0 && t0 == val {
				branchLeaves(x, e.X, val, st, leaf)
			}
			return
		}
	}
	leaf(cond, val)
}
