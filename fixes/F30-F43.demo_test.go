package jet

import (
	"bytes"
	"fmt"
	"reflect"
	"strings"
	"testing"
)

type pVal struct{ N int }

func (p pVal) Get() int { return p.N }

type pH struct {
	P *pVal
	A int
}
type pStringer struct{ s string }

func (p pStringer) String() string { return p.s }

func prun(t *testing.T, set *Set, files map[string]string, entry string, vars VarMap, data interface{}) (out string, err error, pan interface{}) {
	l := NewInMemLoader()
	for k, v := range files {
		l.Set(k, v)
	}
	if set == nil {
		set = NewSet(l, WithSafeWriter(nil))
	}
	var b bytes.Buffer
	func() {
		defer func() { pan = recover() }()
		var tt *Template
		tt, err = set.GetTemplate(entry)
		if err != nil {
			return
		}
		err = tt.Execute(&b, vars, data)
	}()
	return b.String(), err, pan
}

func TestP(t *testing.T) {
	cases := []struct {
		name  string
		files map[string]string
		vars  VarMap
		data  interface{}
	}{
		{"P1 underscore in range =", map[string]string{"/m": `{{v := 0}}{{range _, v = slice(1,2)}}{{v}}{{end}}`}, nil, nil},
		{"P2 yield arg without value", map[string]string{"/m": `{{block foo()}}x{{end}}|{{ yield foo(a) }}`}, nil, nil},
		{"P3 call of non-func with no args", map[string]string{"/m": `{{ x := 5 }}b{{ x() }}c`}, nil, nil},
		{"P4 mod zero", map[string]string{"/m": `{{ 5 % 0 }}`}, nil, nil},
		{"P4b div zero", map[string]string{"/m": `{{ 5 / 0 }}`}, nil, nil},
		{"P5 value method on nil pointer", map[string]string{"/m": `{{ h.P.Get() }}`}, VarMap{}.Set("h", &pH{}), nil},
		{"P6 unnamed Func type", map[string]string{"/m": `{{ f() }}`}, VarMap{}.Set("f", func(a Arguments) reflect.Value { return reflect.ValueOf("x") }), nil},
		{"P7 nil func", map[string]string{"/m": `{{ f(1) }}`}, VarMap{}.Set("f", (func(int) int)(nil)), nil},
		{"P8 field assign wrong type", map[string]string{"/m": `{{ .A = "x" }}`}, nil, &pH{}},
		{"P8b field assign unaddressable", map[string]string{"/m": `{{ .A = 2 }}`}, nil, pH{}},
		{"P9 dot from interface slice truthiness", map[string]string{"/m": `{{range is}}{{if .}}T{{else}}F{{end}}{{end}}|{{range _, x := is}}{{if x}}T{{else}}F{{end}}{{end}}`}, VarMap{}.Set("is", []interface{}{0, "", false, nil, 1, "x"}), nil},
		{"P9b dot to func", map[string]string{"/m": `{{ range slice("a","b") }}{{ upper(.) }}{{ end }}`}, nil, nil},
		{"P10 stringer include", map[string]string{"/m": `{{ include n }}`, "/b.jet": "B"}, VarMap{}.Set("n", pStringer{"/b.jet"}), nil},
		{"P12 percent in name", map[string]string{"/100%s.jet": "a\n{{"}, nil, nil},
		{"P13 leading whitespace", map[string]string{"/m": "  {{ 1 }}"}, nil, nil},
		{"P14 int == float", map[string]string{"/m": `{{ i == 2.5 }}|{{ 2.5 == i }}`}, VarMap{}.Set("i", 2), nil},
	}
	for _, c := range cases {
		entry := "/m"
		if _, ok := c.files["/m"]; !ok {
			for k := range c.files {
				entry = k
			}
		}
		out, err, pan := prun(t, nil, c.files, entry, c.vars, c.data)
		t.Logf("%-40s out=%q err=%v PANIC=%v", c.name, out, err, pan)
	}
	_ = fmt.Sprint
	_ = strings.Repeat
}

func TestPCacheOrder(t *testing.T) {
	l := NewInMemLoader()
	l.Set("/a.jet", "one")
	l.Set("/a.html.jet", "two")
	s := NewSet(l)
	t1, _ := s.GetTemplate("/a.html")
	t2, _ := s.GetTemplate("/a")
	t.Logf("after /a.html: /a -> %s (first %s)", t2.Name, t1.Name)
}
