package jet
import ("testing";"bytes")
func TestZZDiv(t *testing.T){
  for _, src := range []string{`{{ i / z }}`, `{{ u / uz }}`, `{{ i % z }}`, `{{ 5 / 0.0 }}`, `{{ u / 0 }}`, `{{ 5.0 / 0 }}`} {
   func(){
    defer func(){ if r:=recover(); r!=nil { t.Errorf("%s: PANIC %v", src, r) } }()
    l := NewInMemLoader(); l.Set("/a.jet", src)
    s := NewSet(l)
    tpl, err := s.GetTemplate("/a.jet"); if err!=nil { t.Logf("%s parse err %v",src,err); return }
    var b bytes.Buffer
    err = tpl.Execute(&b, VarMap{}.Set("u", uint(3)).Set("i", 5).Set("z", 0).Set("uz", uint(0)), nil)
    t.Logf("%s -> %q err=%v", src, b.String(), err)
   }()
  }
}
