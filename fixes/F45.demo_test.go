package jet
import ("testing";"bytes")
type ZzInner struct{ Name string }
type zzOuter struct{ *ZzInner; Other string }
func TestZZEmb(t *testing.T){
  for _, src := range []string{`{{ .Name = "x" }}{{ .Name }}`, `{{ .Other = "o" }}{{ .Other }}`} {
   for _, data := range []interface{}{ &zzOuter{}, &zzOuter{ZzInner: &ZzInner{}} } {
   func(){
    defer func(){ if r:=recover(); r!=nil { t.Errorf("%s: PANIC %v", src, r) } }()
    l := NewInMemLoader(); l.Set("/a.jet", src)
    s := NewSet(l)
    tpl, err := s.GetTemplate("/a.jet"); if err!=nil { t.Logf("%s parse err %v",src,err); return }
    var b bytes.Buffer
    err = tpl.Execute(&b, nil, data)
    t.Logf("%s -> %q err=%v", src, b.String(), err)
   }()
  }}
}
