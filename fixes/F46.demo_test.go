package jet
import ("testing";"bytes")
type zzH struct{ M map[string]string; N map[int]string; Nil map[string]string; I map[string]interface{}; K map[zzK]string; B map[bool]string }
type zzK string
func TestZZMap(t *testing.T){
  for _, src := range []string{`{{ .M.x = 1 }}`, `{{ .K.x = "named" }}{{ .K.x }}`, `{{ .B.x = "b" }}`, `{{ .N.x = "a" }}`, `{{ .Nil.x = "a" }}`, `{{ .I.x = nosuch }}{{ .I.x }}`, `{{ .M.x = "ok" }}{{ .M.x }}`, `{{ m := map("a",1) }}{{ m.a = 2 }}{{ m.a }}`} {
   func(){
    defer func(){ if r:=recover(); r!=nil { t.Errorf("%s: PANIC %v", src, r) } }()
    l := NewInMemLoader(); l.Set("/a.jet", src)
    s := NewSet(l)
    tpl, err := s.GetTemplate("/a.jet"); if err!=nil { t.Logf("%s parse err %v",src,err); return }
    var b bytes.Buffer
    err = tpl.Execute(&b, nil, &zzH{M: map[string]string{}, N: map[int]string{}, I: map[string]interface{}{}, K: map[zzK]string{}, B: map[bool]string{}})
    t.Logf("%s -> %q err=%v", src, b.String(), err)
   }()
  }
}
