package jet
import ("testing";"bytes")
func TestZZNilSafeWriter(t *testing.T){
  for _, src := range []string{`{{ "x" | w }}`, `{{ w: "x" }}`, `{{ "x" | raw }}`} {
   func(){
    defer func(){ if r:=recover(); r!=nil { t.Errorf("%s: PANIC %v", src, r) } }()
    l := NewInMemLoader(); l.Set("/a.jet", src)
    s := NewSet(l)
    tpl, err := s.GetTemplate("/a.jet"); if err!=nil { t.Logf("%s parse err %v",src,err); return }
    var b bytes.Buffer
    err = tpl.Execute(&b, make(VarMap).SetWriter("w", nil), nil)
    t.Logf("%s -> %q err=%v", src, b.String(), err)
   }()
  }
}
