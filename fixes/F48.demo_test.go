package jet
import ("testing";"bytes";"time")
func TestZZDumpNilGlobal(t *testing.T){
    l := NewInMemLoader(); l.Set("/a.jet", `{{ dump() }}`)
    s := NewSet(l)
    s.AddGlobal("n", nil)
    tpl, err := s.GetTemplate("/a.jet"); if err!=nil { t.Fatal(err) }
    var b bytes.Buffer
    err = tpl.Execute(&b, nil, 1)
    t.Logf("out=%q err=%v", b.String(), err)
    done := make(chan bool)
    go func(){ s.AddGlobal("m", 1); done <- true }()
    select { case <-done: case <-time.After(2*time.Second): t.Fatal("AddGlobal blocks: the globals lock was leaked") }
}
