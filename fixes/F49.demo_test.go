package jet
import ("testing";"bytes";"fmt")
type zzHolder struct{ R Renderer; G Ranger; S fmt.Stringer }
func TestZZNilIface(t *testing.T){
  for _, src := range []string{`{{ .R }}`, `{{ range .G }}x{{ end }}`, `{{ include .S }}`, `{{ r := .R }}{{ r }}`} {
   func(){
    defer func(){ if r:=recover(); r!=nil { t.Errorf("%s: PANIC %v", src, r) } }()
    l := NewInMemLoader(); l.Set("/a.jet", src)
    s := NewSet(l)
    tpl, err := s.GetTemplate("/a.jet"); if err!=nil { t.Logf("%s parse err %v",src,err); return }
    var b bytes.Buffer
    err = tpl.Execute(&b, nil, &zzHolder{})
    t.Logf("%s -> %q err=%v", src, b.String(), err)
   }()
  }
}
