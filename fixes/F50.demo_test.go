package jet
import ("testing";"bytes")
type zzB byte
type zzBytes []byte
func TestZZNamedBytes(t *testing.T){
  for _, src := range []string{`{{ "a" + .N }}`, `{{ "a" + .A }}`, `{{ "a" + .P }}`} {
   func(){
    defer func(){ if r:=recover(); r!=nil { t.Errorf("%s: PANIC %v", src, r) } }()
    l := NewInMemLoader(); l.Set("/a.jet", src)
    s := NewSet(l)
    tpl, err := s.GetTemplate("/a.jet"); if err!=nil { t.Fatal(err) }
    var b bytes.Buffer
    err = tpl.Execute(&b, nil, struct{N []zzB; A zzBytes; P []byte}{[]zzB{104,105}, zzBytes("hi"), []byte("hi")})
    t.Logf("%s -> %q err=%v", src, b.String(), err)
   }()
  }
}
