package jet

import (
	"reflect"
	"bytes"
	"testing"
)

// isset swallows a failure raised below a range (context rebound, scope pushed) inside exec():
// the rest of the template must see the same '.' and the same variables as before.
func TestZZIssetLeavesNoTrace(t *testing.T) {
	l := NewInMemLoader()
	l.Set("/inner.jet", `{{ range .xs }}{{ v := . }}{{ fail() }}{{ end }}`)
	l.Set("/main.jet", `{{ v := "outer" }}[{{ isset(.m[exec("/inner.jet")]) }}][{{ v }}][{{ .name }}]`)
	set := NewSet(l)
	set.AddGlobalFunc("fail", func(a Arguments) reflect.Value { panic("boom") })
	tpl, err := set.GetTemplate("/main.jet")
	if err != nil {
		t.Fatal(err)
	}
	var buf bytes.Buffer
	data := map[string]interface{}{"xs": []map[string]interface{}{{"name": "elem"}}, "m": map[string]int{"a": 1}, "name": "root"}
	if err := tpl.Execute(&buf, nil, data); err != nil {
		t.Fatal(err)
	}
	if got, want := buf.String(), "[false][outer][root]"; got != want {
		t.Fatalf("got %q want %q", got, want)
	}
}
