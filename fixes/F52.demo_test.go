package jet

import (
	"bytes"
	"testing"
)

// == on arrays compares element-wise (it answered false for every pair of arrays of equal length), and an array
// compared with a shorter slice is an answer, not a reflect panic out of Execute.
func TestZZArrayEquality(t *testing.T) {
	set := NewSet(NewInMemLoader())
	data := map[string]interface{}{"a": [2]int{1, 2}, "b": [2]int{1, 2}, "c": [2]int{1, 3}, "s": []int{1}}
	for src, want := range map[string]string{
		`{{ a == b }}`: "true",
		`{{ a == a }}`: "true",
		`{{ a != b }}`: "false",
		`{{ a == c }}`: "false",
		`{{ a == s }}`: "false",
	} {
		tpl, err := set.Parse("/t.jet", src)
		if err != nil {
			t.Fatal(err)
		}
		var buf bytes.Buffer
		func() {
			defer func() {
				if r := recover(); r != nil {
					t.Errorf("%s: Execute panicked: %v", src, r)
				}
			}()
			vars := make(VarMap)
			for k, v := range data {
				vars.Set(k, v)
			}
			if err := tpl.Execute(&buf, vars, nil); err != nil {
				t.Errorf("%s: %v", src, err)
			} else if buf.String() != want {
				t.Errorf("%s: got %q want %q", src, buf.String(), want)
			}
		}()
	}
}
