package jet

import (
	"bytes"
	"testing"
)

type zzOpaque struct {
	Name string
	c    complex128
	ch   chan int
}

// == on structs with unexported complex or channel fields is an answer, not a reflect panic out of Execute.
func TestZZStructEqualityUnexported(t *testing.T) {
	set := NewSet(NewInMemLoader())
	ch := make(chan int)
	vars := make(VarMap)
	vars.Set("a", zzOpaque{"x", 1 + 2i, ch})
	vars.Set("b", zzOpaque{"x", 1 + 2i, ch})
	vars.Set("c", zzOpaque{"x", 2 + 2i, ch})
	vars.Set("d", zzOpaque{"x", 1 + 2i, make(chan int)})
	for src, want := range map[string]string{`{{ a == b }}`: "true", `{{ a == c }}`: "false", `{{ a == d }}`: "false", `{{ a != b }}`: "false"} {
		tpl, err := set.Parse("/t.jet", src)
		if err != nil {
			t.Fatal(err)
		}
		var buf bytes.Buffer
		func() {
			defer func() {
				if r := recover(); r != nil {
					t.Errorf("%s: Execute panicked: %v", src, r)
				}
			}()
			if err := tpl.Execute(&buf, vars, nil); err != nil {
				t.Errorf("%s: %v", src, err)
			} else if buf.String() != want {
				t.Errorf("%s: got %q want %q", src, buf.String(), want)
			}
		}()
	}
}
