package jet

import (
	"bytes"
	"testing"
)

func zzRun54(t *testing.T, src string, vars VarMap, data interface{}) (out string, err error) {
	t.Helper()
	loader := NewInMemLoader()
	loader.Set("/main.jet", src)
	set := NewSet(loader, WithSafeWriter(nil))
	tpl, perr := set.GetTemplate("/main.jet")
	if perr != nil {
		t.Fatalf("parse: %v", perr)
	}
	var buf bytes.Buffer
	err = tpl.Execute(&buf, vars, data)
	return buf.String(), err
}

// Observation 1: nil pointer dereference escapes Execute
func TestZZContentFailureUnderNestedLets(t *testing.T) {
	src := `{{ x := 1 }}` +
		`{{ block b() }}{{ y := 2 }}{{ if true }}{{ z := 3 }}{{ yield content }}{{ end }}{{ end }}` +
		`{{ yield b() content }}{{ undefinedName }}{{ end }}`
	defer func() {
		if r := recover(); r != nil {
			t.Fatalf("panic escaped Execute: %v", r)
		}
	}()
	if _, err := zzRun54(t, src, nil, nil); err == nil {
		t.Fatalf("expected an error for the undefined identifier")
	}
}

type pristine8S struct{ N int }

