package jet

import (
	"bytes"
	"testing"
)

// indexing a map[interface{}]… with a value that cannot be a key (a slice) is an error, not a panic out of Execute
func TestZZUnhashableKey(t *testing.T) {
	set := NewSet(NewInMemLoader())
	vars := make(VarMap)
	vars.Set("mi", map[interface{}]int{"a": 1})
	vars.Set("sl", []int{1})
	for _, src := range []string{`{{ mi[sl] }}`, `{{ v, ok := mi[sl] }}{{ ok }}`} {
		tpl, err := set.Parse("/t.jet", src)
		if err != nil {
			t.Fatal(err)
		}
		var buf bytes.Buffer
		func() {
			defer func() {
				if r := recover(); r != nil {
					t.Errorf("%s: Execute panicked: %v", src, r)
				}
			}()
			if err := tpl.Execute(&buf, vars, nil); err == nil {
				t.Errorf("%s: no error (output %q)", src, buf.String())
			}
		}()
	}
	// a hashable key still works
	tpl, _ := set.Parse("/u.jet", `{{ mi["a"] }}`)
	var buf bytes.Buffer
	if err := tpl.Execute(&buf, vars, nil); err != nil || buf.String() != "1" {
		t.Errorf("got %q, %v", buf.String(), err)
	}
}
