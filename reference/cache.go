package jet

import "sync"

// Cache is the interface Jet uses to store and retrieve parsed templates.
type Cache interface {

	// Get fetches a template from the cache. If Get returns nil, the same path with a different extension will be tried.
	// If Get() returns nil for all configured extensions, the same path and extensions will be tried on the Set's Loader.
	Get(templatePath string) *Template

	// Put places the result of parsing a template "file"/string in the cache.
	Put(templatePath string, t *Template)
}

// cache is the cache used by default in a new Set.
type cache struct {
	m sync.Map
}

// compile-time check that cache implements Cache
var _ Cache = (*cache)(nil)

func (c *cache) Get(templatePath string) *Template {
	_t, ok := c.m.Load(templatePath)
	if !ok {
		return nil
	}
	return _t.(*Template)
}

func (c *cache) Put(templatePath string, t *Template) {
	c.m.Store(templatePath, t)
}
