// Copyright 2016 José Santos <henrique_1609@me.com>
//
// Licensed under the Apache License, Version 2.0 (the "License");
// you may not use this file except in compliance with the License.
// You may obtain a copy of the License at
//
// http://www.apache.org/licenses/LICENSE-2.0
//
// Unless required by applicable law or agreed to in writing, software
// distributed under the License is distributed on an "AS IS" BASIS,
// WITHOUT WARRANTIES OR CONDITIONS OF ANY KIND, either express or implied.
// See the License for the specific language governing permissions and
// limitations under the License.

package jettest

import (
	"bytes"
	"fmt"
	"strings"
	"testing"

	"github.com/CloudyKit/jet/v6"
)

func RunWithSet(t *testing.T, set *jet.Set, variables jet.VarMap, context interface{}, testName, testExpected string) {
	tt, err := set.GetTemplate(testName)
	if err != nil {
		t.Errorf("Error parsing templates for test %s: %v", testName, err)
		return
	}
	RunWithTemplate(t, tt, variables, context, testExpected)
}

func RunWithTemplate(t *testing.T, tt *jet.Template, variables jet.VarMap, context interface{}, testExpected string) {
	if testing.RunTests(func(pat, str string) (bool, error) {
		return true, nil
	}, []testing.InternalTest{
		{
			Name: fmt.Sprintf("\tJetTest(%s)", tt.Name),
			F: func(t *testing.T) {
				var buf bytes.Buffer
				err := tt.Execute(&buf, variables, context)
				if err != nil {
					t.Errorf("Eval error: %q executing %s", err.Error(), tt.Name)
					return
				}
				result := strings.Replace(buf.String(), "\r\n", "\n", -1)
				if result != testExpected {
					t.Errorf("Result error expected %q got %q on %s", testExpected, result, tt.Name)
				}
			},
		},
	}) == false {
		t.Fail()
	}
}
