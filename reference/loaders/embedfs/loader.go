package embedfs

import (
	"embed"
	"io"
	"io/fs"
	"path/filepath"

	"github.com/CloudyKit/jet/v6"
)

type embedFileSystemLoader struct {
	dir string
	fs embed.FS
}

// NewLoader returns an initialized loader serving the passed embed.FS.
func NewLoader(dirPath string, fs embed.FS) jet.Loader {
	return &embedFileSystemLoader{
		dir: filepath.FromSlash(dirPath),
		fs: fs,
	}
}

// Open implements Loader.Open() on top of an embed.FS.
func (l *embedFileSystemLoader) Open(name string) (io.ReadCloser, error) {
	return l.fs.Open(filepath.Join(l.dir, filepath.FromSlash(name)))
}

// Exists implements Loader.Exists() on top of an embed.FS by trying to open the file.
func (l *embedFileSystemLoader) Exists(name string) bool {
	name = filepath.Join(l.dir, filepath.FromSlash(name))
	stat, err := fs.Stat(l.fs, name)
	if err == nil && !stat.IsDir() {
		return true
	}
	return false
}
