#!/bin/bash
# tools/adopt_refactor.sh <src-dir> <ID>: confirms in a fresh scratch worktree (removed afterwards) that a
# behaviour-preserving change applies, builds, vets and passes the 440-test baseline, then stores it
# under /verif/refactors/<ID>/ (patch.diff, notes.md).  These are the standing negative examples:
# every check must stay silent on each of them (tools/run_refactors.sh; replayed by the thorough tier).
set -u
SRC=$1; ID=$2
export GOFLAGS=-mod=mod GOPROXY=off GOSUMDB=off GOTOOLCHAIN=local GOWORK=off
WT=$(mktemp -d /tmp/vref.XXXXXX)
cleanup() { git -C /repo worktree remove --force "$WT" >/dev/null 2>&1; rm -rf "$WT"; }
trap cleanup EXIT
git -C /repo worktree add --detach "$WT" HEAD >/dev/null 2>&1 || { echo "cannot create worktree"; exit 2; }
cd "$WT"
git apply "$SRC/patch.diff" || { echo "$ID: patch does not apply"; exit 1; }
go build ./... >/dev/null 2>&1 || { echo "$ID: does not build"; exit 1; }
go vet ./... >/dev/null 2>&1 || { echo "$ID: vet fails"; exit 1; }
/verif/tools/baseline.sh "$WT" > "$WT/.bl.out" 2>&1 || { echo "$ID: baseline fails: $(head -1 $WT/.bl.out)"; exit 1; }
mkdir -p /verif/refactors/$ID
cp "$SRC/patch.diff" /verif/refactors/$ID/patch.diff
cp "$SRC/notes.md" /verif/refactors/$ID/notes.md 2>/dev/null
echo "$ID: adopted ($(head -1 $WT/.bl.out))"
