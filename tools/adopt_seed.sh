#!/bin/bash
# tools/adopt_seed.sh <PROP> <k> <demo-target-relative-path> [other props to run...]
# Verifies a sub-agent's seeded change (tools/verify_seed.sh), runs the property's check (and any extra
# properties given) against it by applying it to /repo and reverting straight afterwards, and stores
# patch, demonstration and meta.json under /verif/seeded/<PROP>-<k>/ .
set -u
P=$1; K=$2; TARGET=$3; shift 3
SRC=/tmp/seed-out/$P/$K
DST=/verif/seeded/$P-$K
cd /verif
# (VERIFY_OUT=<file>: output of an earlier tools/verify_seed.sh run for this seed, e.g. made in parallel)
if [ -n "${VERIFY_OUT:-}" ] && [ -f "$VERIFY_OUT" ]; then VER=$(cat "$VERIFY_OUT"); else VER=$(tools/verify_seed.sh "$SRC" "$TARGET" 2>&1); fi
echo "$VER" | tail -3
echo "$VER" | grep -q '^CONFIRMED' || { echo "NOT CONFIRMED - not adopted"; exit 1; }
mkdir -p "$DST"
cp "$SRC/patch.diff" "$DST/patch.diff"; cp "$SRC/demo_test.go" "$DST/demo_test.go"; cp "$SRC/notes.md" "$DST/notes.md" 2>/dev/null
git -C /repo diff --quiet || { echo "/repo is dirty"; exit 2; }
git -C /repo apply "$DST/patch.diff" || exit 2
DETECT=""
EXPECT=""
EXPMAP=""
TMPO=$(mktemp -d)
for Q in $P "$@"; do
  ( ./bin/jetverif -prop $Q -tier quick -repo /repo -out $TMPO/out.$Q -findings /verif/known_findings.json > $TMPO/$Q.log 2>&1; echo $? > $TMPO/$Q.rc ) &
  while [ $(jobs -r | wc -l) -ge 8 ]; do sleep 0.2; done
done
wait
for Q in $P "$@"; do
  OUT=$(cat $TMPO/$Q.log); RC=$(cat $TMPO/$Q.rc)
  KEYS=$(echo "$OUT" | grep 'status=violated\|status=undecided\|status=unresolved' | grep -o 'key=[^ ]*' | sed 's/key=//' | tr '\n' ' ')
  echo "  check $Q rc=$RC keys: $KEYS"
  R=""; if [ $RC -eq 1 ]; then R=$(echo "$KEYS" | awk '{print $1}' | cut -d/ -f1); fi
  if [ "$Q" = "$P" ] && [ -z "$EXPECT" ]; then EXPECT=$R; fi
  EXPMAP="$EXPMAP\"$Q\":\"$R\","
  JKEYS=$(echo "$KEYS" | tr -d '"\\')
  DETECT="$DETECT{\"check\":\"$Q\",\"exit\":$RC,\"violated_keys\":\"$JKEYS\"},"
done
rm -rf $TMPO
git -C /repo checkout -- . ; git -C /repo clean -fdq
python3 - "$P" "$K" "$TARGET" "$DST" "[${DETECT%,}]" "$VER" "$EXPECT" "{${EXPMAP%,}}" <<'PY'
import json,sys,re
p,k,target,dst,det,ver,expect,expmap=sys.argv[1:9]
notes=open(dst+'/notes.md').read() if True else ''
meta={"property":p,"seed":int(k),"origin":"independent sub-agent given only the property text and a scratch worktree (no access to /verif)",
 "demo_location":target,
 "needs_to_manifest":"see notes.md (written by the sub-agent)",
 "confirmed_by":"tools/verify_seed.sh in a fresh scratch worktree: patch applies and builds; 440-test baseline passes with the change; demo fails with the change and passes without it",
 "verification_output":[l for l in ver.splitlines() if l.startswith(('RESULT','CONFIRMED'))],
 "checks_run":json.loads(det),
 "expect_rule":expect,
 "expect_by_property":json.loads(expmap),
 "expect_rule_note":"rule (obligation-key prefix) of this property's check that reports the change; the thorough tier re-applies patch.diff in memory on every run and requires it. Empty = not detected by the property's own rules (see DESIGN.md, seeded changes)"}
json.dump(meta,open(dst+'/meta.json','w'),indent=1)
PY
echo "adopted $DST"
