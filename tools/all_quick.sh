#!/bin/bash
# tools/all_quick.sh [tier]: runs every check (8 in parallel) and prints one line each.
cd /verif
T=${1:-quick}
export GOFLAGS=-mod=mod GOPROXY=off GOSUMDB=off GOTOOLCHAIN=local GOWORK=off
./check C01 quick >/dev/null 2>&1  # make sure the binary is built once
for i in $(seq -w 1 20); do
  ( ./check C$i $T > /tmp/allq.$i.log 2>&1; echo "rc=$?" >> /tmp/allq.$i.log ) &
  while [ $(jobs -r | wc -l) -ge 8 ]; do sleep 0.2; done
done
wait
for i in $(seq -w 1 20); do echo "$(grep -E 'tier=' /tmp/allq.$i.log | head -1) $(grep -E 'self-test' /tmp/allq.$i.log | sed 's/liveness self-test: //') $(tail -1 /tmp/allq.$i.log)"; grep -E "VIOLATION|status=|^jetverif:" /tmp/allq.$i.log | head -5; rm -f /tmp/allq.$i.log; done
