#!/bin/bash
# Runs the repository's pinned test suite (guard off: no build tags) against a tree
# and compares the passing set with /root/.vp/BASELINE.json (440 stable tests).
# usage: tools/baseline.sh [repo-dir]      exit 0 iff every baseline test passes and none fails
REPO=${1:-/repo}
export GOFLAGS=-mod=mod GOPROXY=off GOSUMDB=off GOTOOLCHAIN=local GOWORK=off
OUT=$(mktemp)
trap 'rm -f "$OUT"' EXIT
(cd "$REPO" && go test -mod=mod -json -vet=off -count=1 -timeout 25m ./... >"$OUT" 2>&1)
python3 - "$OUT" <<'PY'
import json,sys
base=set(json.load(open('/root/.vp/BASELINE.json'))['stable_pass'])
passed,failed=set(),set()
for line in open(sys.argv[1],errors='replace'):
    line=line.strip()
    if not line.startswith('{'): continue
    try: ev=json.loads(line)
    except Exception: continue
    a=ev.get('Action'); t=ev.get('Test'); pkg=ev.get('Package','')
    if a not in('pass','fail'): continue
    if t is None:
        if a=='fail': failed.add(pkg+'::[package-fail]')
        continue
    (passed if a=='pass' else failed).add(pkg+'::'+t)
passed-=failed
missing=sorted(base-passed)
print(f"baseline: {len(base&passed)}/{len(base)} passed, {len(failed)} failed")
for m in missing[:20]: print("  MISSING",m)
for m in sorted(failed)[:20]: print("  FAILED",m)
sys.exit(0 if not missing and not failed else 1)
PY
