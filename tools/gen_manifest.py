#!/usr/bin/env python3
"""Generates /verif/MANIFEST.json from the table below (one entry per claimed property)."""
import json

ENV = "GOFLAGS=-mod=mod GOPROXY=off GOSUMDB=off GOTOOLCHAIN=local GOWORK=off"

# id -> (technique, level text, level note, design ref)
CLAIMED = {
    "C16": ("guard/dominance rules on the CFG of the lookup functions in set.go with condition facts; flag-threading closure; error discipline",
            "Decides the guard structure that makes the cache coherent: Cache.Get only outside development mode and a hit returns the cached pointer before any Loader call; "
            "a single Cache.Put dominated by err == nil && flag && !developmentMode storing the just-loaded template under the looked-up path; the cache flag threaded unchanged "
            "through the parse cycle (Set.Parse passes false); extension list only ranged over, first hit returns, Open/parse get the path Exists accepted; no error of Open/ReadAll/parse dropped. "
            "Histories against real caches/loaders are not explored: these are necessary structural conditions.",
            "Assumes Cache implementations return what was Put under the same key; stdlib trusted; facts on Set/Template fields are treated as stable during a lookup (discharged by C11.frozen).",
            "DESIGN.md §4 C16"),
    "C15": ("flow-sensitive sanitiser (taint) analysis on CFGs with condition facts, inductive over parameters and over the Template.Name / NodeBase.TemplatePath fields",
            "Decides that every path reaching Loader.Exists/Open, Cache.Get/Put or Template.Name was made absolute and lexically clean by path.Clean under path.IsAbs or by path.Join rooted at a clean "
            "path (after filepath.ToSlash), on every CFG path and through every caller (greatest fixpoint), and that each entry point passes the right referrer (root, the parsing template's Name, "
            "the include node's TemplatePath) whose directory relative names are joined to. This is the sanitiser-placement half of the property; string results of path.Clean/Join are trusted.",
            "Trusts path.Clean/Join/Dir/IsAbs and filepath.ToSlash; extensions are assumed separator-free; custom loaders are out of scope.",
            "DESIGN.md §4 C15"),
    "C20": ("exhaustiveness + child-coverage + nil-belief lint over the type-checked AST of utils/visitor.go vs node.go",
            "Decides, for every node type and child field the parser can build, that the visitor has a case, visits each child exactly once "
            "from an unconditional / nil-guarded / range call site, guards every field package jet believes nullable, and never re-visits its own node. "
            "This is nearly the whole property (it is a property of the visitor's code shape); level 'other' because it is a structural argument, not a machine-checked proof.",
            "Assumes a visitor that descends via VisitorContext.Visit; nullability beliefs are read from package jet's own nil tests and constructor calls; go/types front end trusted.",
            "DESIGN.md §4 C20"),
}

PENDING_REASON = "check not yet implemented in this revision of /verif (planned in DESIGN.md §4; static rules designed, code pending)"

def main():
    props = [json.loads(l) for l in open('/verif/properties.jsonl')]
    checks, na = [], []
    for p in props:
        pid = p['id']
        if pid in CLAIMED:
            tech, text, note, ref = CLAIMED[pid]
            checks.append({
                "property_id": pid,
                "quick_cmd": f"./check {pid} quick",
                "thorough_cmd": f"./check {pid} thorough",
                "evidence_file": f"/verif/evidence/{pid}.json",
                "replay_cmd_template": f"./check {pid} --replay {{path}}",
                "engine": "jetverif",
                "level_claimed": {"category": "other", "text": text, "design_ref": ref},
                "level_note": note,
                "technique": "static analysis: " + tech,
            })
        else:
            na.append({"property_id": pid, "reason": NA.get(pid, PENDING_REASON)})
    m = {
        "version": 1,
        "setup_cmd": f"cd /verif/checker && {ENV} go build -o /verif/bin/jetverif ./cmd/jetverif",
        "hooks": {
            "guard": "verif",
            "enable": "none needed: the checks are static analyses of /repo's working tree; no hook or instrumentation exists in /repo (the tag name is reserved)",
            "baseline_off_cmd": "/verif/tools/baseline.sh /repo",
            "source_commits": [],
            "add_only": True,
        },
        "engines": [{
            "name": "jetverif",
            "path": "/verif/checker",
            "serves_properties": sorted(CLAIMED),
            "kind_free_text": "repository-specific static analyser (go/packages + go/types + go/cfg, x/tools v0.29.0): typed-AST lints, CFG path exploration with condition facts, "
                              "pairing/typestate, provenance, sibling agreement; thorough tier adds a liveness self-test (single-site in-memory mutants of the current tree that each rule must report)",
        }],
        "checks": checks,
        "not_applicable": na,
        "notes": "Every check re-loads and type-checks /repo's current working tree on each run (nothing of /repo is executed). "
                 "Level is 'other' throughout: each check decides structural necessary conditions of its property and states what it does not decide (DESIGN.md §4). "
                 "Genuine defects found are repaired by 'fix:' commits in /repo or listed in /verif/known_findings.json.",
    }
    json.dump(m, open('/verif/MANIFEST.json', 'w'), indent=1)
    print("wrote MANIFEST.json:", len(checks), "checks,", len(na), "not applicable")

NA = {}

if __name__ == '__main__':
    main()
