#!/usr/bin/env python3
"""Generates /verif/MANIFEST.json.  The per-property texts come from the rule metadata compiled into
the checker (`bin/jetverif -meta`), so MANIFEST and evidence cannot drift apart.  A property that has
no registered rule set is listed under not_applicable with its reason from NA below."""
import json, subprocess

ENV = "GOFLAGS=-mod=mod GOPROXY=off GOSUMDB=off GOTOOLCHAIN=local GOWORK=off"

# reasons for properties that are not claimed (kept current by hand)
NA = {}
PENDING_REASON = "check not yet implemented in this revision of /verif (static rules designed in DESIGN.md §4; code pending)"


def main():
    meta = json.loads(subprocess.check_output(["/verif/bin/jetverif", "-meta"]))
    props = [json.loads(l) for l in open('/verif/properties.jsonl')]
    checks, na = [], []
    for p in props:
        pid = p['id']
        if pid in meta and pid not in NA:
            m = meta[pid]
            checks.append({
                "property_id": pid,
                "quick_cmd": f"./check {pid} quick",
                "thorough_cmd": f"./check {pid} thorough",
                "evidence_file": f"/verif/evidence/{pid}.json",
                "replay_cmd_template": f"./check {pid} --replay {{path}}",
                "engine": "jetverif",
                "level_claimed": {
                    "category": "other",
                    "text": "Structural necessary conditions of the property, decided for /repo's current source on every CFG path / every call site / every type "
                            "(not a proof of the behaviour): " + m["explanation"] + "  NOT DECIDED (left to other technique families): " + m["not_decided"]
                            + f"  The thorough tier additionally re-runs the rules on {m['mutants']} single-site in-memory mutants of the current tree, each of which must be reported (liveness of the rules).",
                    "design_ref": f"DESIGN.md §4 {pid}",
                },
                "level_note": "Trusted base: go/parser + go/types + golang.org/x/tools v0.29.0 (go/packages, go/cfg); the standard library and fastprinter behave as documented. "
                              + " ".join("Assumes: " + a + "." for a in m.get("assumptions") or []),
                "technique": "static analysis — " + m["technique"],
            })
        else:
            na.append({"property_id": pid, "reason": NA.get(pid, PENDING_REASON)})
    m = {
        "version": 1,
        "setup_cmd": f"cd /verif/checker && {ENV} go build -o /verif/bin/jetverif ./cmd/jetverif",
        "hooks": {
            "guard": "verif",
            "enable": "none needed: the checks are static analyses of /repo's working tree; no hook or instrumentation exists in /repo (the tag name is reserved)",
            "baseline_off_cmd": "/verif/tools/baseline.sh /repo",
            "source_commits": [],
            "add_only": True,
        },
        "engines": [{
            "name": "jetverif",
            "path": "/verif/checker",
            "serves_properties": [c["property_id"] for c in checks],
            "kind_free_text": "repository-specific static analyser (go/packages + go/types + go/cfg, x/tools v0.29.0): typed-AST lints, CFG exploration with condition facts "
                              "(a small abstract interpretation), pairing/typestate, provenance and taint, sibling agreement; the thorough tier adds a liveness self-test "
                              "(single-site in-memory mutants of the current tree that each rule must report)",
        }],
        "checks": checks,
        "not_applicable": na,
        "notes": "Every check re-loads and type-checks /repo's current working tree on each run (nothing of /repo is executed). "
                 "Level is 'other' throughout: each check decides structural necessary conditions of its property and states what it does not decide (DESIGN.md §4). "
                 "Genuine defects found are repaired by 'fix:' commits in /repo or listed in /verif/known_findings.json.",
    }
    json.dump(m, open('/verif/MANIFEST.json', 'w'), indent=1)
    print("wrote MANIFEST.json:", len(checks), "checks,", len(na), "not applicable")


if __name__ == '__main__':
    main()
