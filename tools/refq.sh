#!/bin/bash
# tools/refq.sh <PROP> [ID-prefix]: runs one property's quick check against every behaviour-preserving variant of
# /verif/refactors (optionally only those whose ID starts with the prefix), 8 at a time, each in a scratch worktree
# of /repo under /tmp (removed afterwards; /repo itself is not touched), and lists the variants that raise an alarm.
P=$1; PRE=${2:-}
cd /verif
export GOFLAGS=-mod=mod GOPROXY=off GOSUMDB=off GOTOOLCHAIN=local GOWORK=off
N=8
TMP=$(mktemp -d /tmp/refq.XXXXXX)
for w in $(seq 1 $N); do git -C /repo worktree add -q --detach $TMP/wt$w HEAD; done
ls refactors | grep "^$PRE" > $TMP/ids
worker() {
  w=$1
  while read -r id; do
    ( cd $TMP/wt$w && git apply /verif/refactors/$id/patch.diff 2>/dev/null ) || { echo "$id: NOAPPLY"; continue; }
    out=$(${JV:-/verif/bin/jetverif} -prop $P -tier quick -repo $TMP/wt$w -out $TMP/out$w -findings /verif/known_findings.json 2>&1); rc=$?
    if [ $rc -ne 0 ]; then echo "$id: rc=$rc $(echo "$out" | grep -o 'key=[^ ]*' | head -4 | tr '\n' ' ')"; fi
    ( cd $TMP/wt$w && git checkout -q -- . && git clean -fdq )
  done
}
for w in $(seq 1 $N); do awk -v n=$N -v w=$w 'NR%n==w-1' $TMP/ids | worker $w & done
wait
for w in $(seq 1 $N); do git -C /repo worktree remove --force $TMP/wt$w; done
rm -rf $TMP; git -C /repo worktree prune
echo "refq $P done ($(ls refactors | grep -c "^$PRE") variants)"
