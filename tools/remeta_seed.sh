#!/bin/bash
# tools/remeta_seed.sh <PROP-k> [other props...]: re-runs the property's check (and the extra ones) against an
# already adopted and confirmed seed (applied to /repo, reverted straight afterwards) and refreshes the
# detection fields of its meta.json (checks_run, expect_rule, expect_by_property).
set -u
S=$1; shift
P=${S%%-*}
DST=/verif/seeded/$S
cd /verif
git -C /repo diff --quiet || { echo "/repo is dirty"; exit 2; }
git -C /repo apply "$DST/patch.diff" || exit 2
DETECT=""; EXPECT=""; EXPMAP=""
TMPO=$(mktemp -d)
for Q in $P "$@"; do
  ( ./bin/jetverif -prop $Q -tier quick -repo /repo -out $TMPO/out.$Q -findings /verif/known_findings.json > $TMPO/$Q.log 2>&1; echo $? > $TMPO/$Q.rc ) &
  while [ $(jobs -r | wc -l) -ge 8 ]; do sleep 0.2; done
done
wait
for Q in $P "$@"; do
  OUT=$(cat $TMPO/$Q.log); RC=$(cat $TMPO/$Q.rc)
  KEYS=$(echo "$OUT" | grep 'status=violated\|status=undecided\|status=unresolved' | grep -o 'key=[^ ]*' | sed 's/key=//' | tr '\n' ' ')
  echo "  check $Q rc=$RC keys: $KEYS"
  R=""; if [ $RC -eq 1 ]; then R=$(echo "$KEYS" | awk '{print $1}' | cut -d/ -f1); fi
  if [ "$Q" = "$P" ]; then EXPECT=$R; fi
  EXPMAP="$EXPMAP\"$Q\":\"$R\","
  JKEYS=$(echo "$KEYS" | tr -d '"\\')
  DETECT="$DETECT{\"check\":\"$Q\",\"exit\":$RC,\"violated_keys\":\"$JKEYS\"},"
done
rm -rf $TMPO
git -C /repo checkout -- . ; git -C /repo clean -fdq
python3 - "$DST" "[${DETECT%,}]" "$EXPECT" "{${EXPMAP%,}}" <<'PY'
import json,sys
dst,det,expect,expmap=sys.argv[1:5]
m=json.load(open(dst+'/meta.json'))
m['checks_run']=json.loads(det); m['expect_rule']=expect; m['expect_by_property']=json.loads(expmap)
json.dump(m,open(dst+'/meta.json','w'),indent=1)
PY
