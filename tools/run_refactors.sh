#!/bin/bash
# tools/run_refactors.sh [ID...]: runs every quick check against each adopted behaviour-preserving change
# (applied to /repo and reverted straight afterwards) and lists the checks that raise an alarm.
cd /verif
IDS=${*:-$(ls refactors)}
TOTAL=0; NOISY=0
for id in $IDS; do
  TOTAL=$((TOTAL+1))
  OUT=$(tools/try_patch.sh refactors/$id/patch.diff 2>&1 | grep -v "KNOWN-FINDING\|conda")
  if echo "$OUT" | grep -q "^all silent"; then echo "$id: silent"; else NOISY=$((NOISY+1)); echo "$id: ALARM"; echo "$OUT" | grep -E "^== |key=" | sed 's/^/    /'; fi
done
echo "refactorings: $TOTAL, with alarms: $NOISY"
