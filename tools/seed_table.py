#!/usr/bin/env python3
"""Regenerates the table of seeded changes in DESIGN.md (between the SEED-TABLE markers) from seeded/*/meta.json."""
import json, glob, os, re
root = os.path.dirname(os.path.dirname(os.path.abspath(__file__)))
rows = ['| seed | change (first line of the author\'s notes.md) | reported by (rule ids of the violated obligations) |', '|---|---|---|']
n = miss = 0
for d in sorted(glob.glob(os.path.join(root, 'seeded', '*'))):
    mp = os.path.join(d, 'meta.json')
    if not os.path.exists(mp):
        continue
    m = json.load(open(mp))
    title = open(os.path.join(d, 'notes.md')).readline().strip().lstrip('# ').strip()
    title = re.sub(r'^(C\d\d )?[Ss]eed(ed defect)? ?(C\d\d/)?\d+ ?[-—–]+ ?', '', title)
    det = []
    for c in m.get('checks_run', []):
        if c['exit'] == 1:
            rules = sorted({k.split('/')[0] for k in c.get('violated_keys', '').split()})
            det.append(', '.join(rules))
    n += 1
    if not det:
        miss += 1
    rows.append('| %s | %s | %s |' % (os.path.basename(d), title.replace('|', '\\|'), '; '.join(det) or '**not reported**'))
rows.append('')
rows.append('%d seeded changes, %d reported by at least one check, %d not reported.' % (n, n - miss, miss))
p = os.path.join(root, 'DESIGN.md')
s = open(p).read()
b, e = '<!-- SEED-TABLE-BEGIN -->', '<!-- SEED-TABLE-END -->'
i, j = s.index(b) + len(b), s.index(e)
s = s[:i] + '\n' + '\n'.join(rows) + '\n' + s[j:]
open(p, 'w').write(s)
print('seed table: %d rows, %d not reported' % (n, miss))
