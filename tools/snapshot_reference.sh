#!/bin/bash
# tools/snapshot_reference.sh: (re)creates /verif/reference, the snapshot of the module's non-test Go
# files that an/align.go uses to name local variables (see its header).  Run after a fix: commit in /repo.
set -e
cd /repo
rm -rf /verif/reference; mkdir -p /verif/reference
git ls-files '*.go' | grep -v '_test.go$' | grep -v '^examples/' | while read f; do mkdir -p /verif/reference/$(dirname $f); cp $f /verif/reference/$f; done
git rev-parse HEAD > /verif/reference/COMMIT
echo "snapshot of $(git rev-parse --short HEAD): $(find /verif/reference -name '*.go' | wc -l) files"
