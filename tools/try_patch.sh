#!/bin/bash
# tools/try_patch.sh <patch.diff> [props...]: applies the patch to /repo, runs the quick checks (all 20 by
# default) against it without touching /verif/evidence, reverts /repo straight afterwards, and prints
# which checks report what.  Used for seeded defects (must be reported) and for behaviour-preserving
# refactorings (must stay silent).
set -u
PATCH=$(realpath "$1"); shift
PROPS=${*:-C01 C02 C03 C04 C05 C06 C07 C08 C09 C10 C11 C12 C13 C14 C15 C16 C17 C18 C19 C20}
git -C /repo diff --quiet || { echo "/repo is dirty"; exit 2; }
git -C /repo apply "$PATCH" || { echo "patch does not apply"; exit 2; }
trap 'git -C /repo checkout -- . ; git -C /repo clean -fdq' EXIT
OUT=$(mktemp -d)
ANY=0
for Q in $PROPS; do
  ( /verif/bin/jetverif -prop $Q -tier quick -repo /repo -out $OUT/$Q -findings /verif/known_findings.json > $OUT/$Q.log 2>&1; echo $? > $OUT/$Q.rc ) &
  while [ $(jobs -r | wc -l) -ge 8 ]; do sleep 0.2; done
done
wait
for Q in $PROPS; do
  RC=$(cat $OUT/$Q.rc)
  if [ "$RC" != "0" ]; then
    ANY=1
    echo "== $Q rc=$RC"
    grep -E "status=(violated|undecided|vacuous|unresolved-anchor)|^jetverif:|panic" -B1 $OUT/$Q.log | grep -v '^--' | cut -c1-400 | head -24
  fi
done
[ $ANY = 0 ] && echo "all silent"
rm -rf $OUT
