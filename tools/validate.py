#!/usr/bin/env python3-vt
"""Validates MANIFEST.json and every evidence file against the harness schemas."""
import json, sys, glob, jsonschema
ok = True
m = json.load(open('/verif/MANIFEST.json'))
try:
    jsonschema.validate(m, json.load(open('/root/.vp/MANIFEST.schema.json')))
    print('MANIFEST ok:', len(m['checks']), 'checks,', len(m.get('not_applicable', [])), 'not applicable')
except Exception as e:
    ok = False; print('MANIFEST INVALID', e)
props = [json.loads(l)['id'] for l in open('/verif/properties.jsonl')]
claimed = [c['property_id'] for c in m['checks']]; na = [n['property_id'] for n in m.get('not_applicable', [])]
if sorted(claimed + na) != sorted(props):
    ok = False; print('claimed+not_applicable != properties', sorted(set(props) - set(claimed) - set(na)), sorted(set(claimed) & set(na)))
es = json.load(open('/root/.vp/EVIDENCE.schema.json'))
for c in m['checks']:
    f = c['evidence_file']
    try:
        e = json.load(open(f)); jsonschema.validate(e, es)
        assert e['property_id'] == c['property_id'] and e['level'] == c['level_claimed']['category']
        print(' evidence ok', f, e['tier'], e['coverage'].get('obligations'), 'obligations', e.get('violations'), 'violations')
    except Exception as ex:
        ok = False; print(' evidence INVALID', f, str(ex)[:200])
sys.exit(0 if ok else 1)
