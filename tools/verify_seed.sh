#!/bin/bash
# tools/verify_seed.sh <seed-dir> <demo-target-path-relative-to-repo-root>
# Confirms, in a fresh scratch worktree of /repo (removed afterwards), that a seeded change
#  - applies and builds, - passes the 440-test baseline, - makes its demonstration fail, and that the demonstration passes without it.
set -u
SEED=$1; TARGET=$2
export GOFLAGS=-mod=mod GOPROXY=off GOSUMDB=off GOTOOLCHAIN=local GOWORK=off
WT=$(mktemp -d /tmp/vseed.XXXXXX)
cleanup() { git -C /repo worktree remove --force "$WT" >/dev/null 2>&1; rm -rf "$WT"; }
trap cleanup EXIT
git -C /repo worktree add --detach "$WT" HEAD >/dev/null 2>&1 || { echo "cannot create worktree"; exit 2; }
cd "$WT"
PKGDIR=$(dirname "$TARGET")
run_demo() { cp "$SEED/demo_test.go" "$WT/$TARGET"; (cd "$WT/$PKGDIR" && go test -count=1 -run 'TestSeeded' . >"$WT/.demo.out" 2>&1); rc=$?; rm -f "$WT/$TARGET"; return $rc; }
run_demo; PRISTINE=$?
git apply "$SEED/patch.diff" || { echo "RESULT patch does not apply"; exit 1; }
go build ./... >/dev/null 2>&1 || { echo "RESULT does not build"; exit 1; }
/verif/tools/baseline.sh "$WT" > "$WT/.bl.out" 2>&1; BL=$?
run_demo; SEEDED=$?
echo "RESULT pristine_demo_rc=$PRISTINE baseline_with_change_rc=$BL ($(head -1 $WT/.bl.out)) seeded_demo_rc=$SEEDED"
if [ $PRISTINE -eq 0 ] && [ $BL -eq 0 ] && [ $SEEDED -ne 0 ]; then echo "CONFIRMED"; exit 0; fi
tail -15 "$WT/.demo.out"
exit 1
